package main

// In-process RESP (redis serialization protocol, version 2) server standing in for redis.
//
// It implements the commands the gmqtt redis persistence backend issues through redigo
// (PING, AUTH, SELECT, HSET multi-field, HGET, HMGET, HGETALL, HDEL, HLEN, HEXISTS, DEL, EXISTS,
// TYPE, RPUSH, LPUSH, LRANGE, LREM, LSET, LLEN, LINDEX, SCAN cursor [MATCH p] [COUNT n], KEYS,
// DBSIZE, FLUSHDB/FLUSHALL, ECHO) with the semantics of the redis documentation, on one database.
//
//   - every WRITE command it executes is appended to a journal, in execution order, in canonical
//     form (lower-case command name + the raw argument byte strings); a write command that
//     fails (wrong type, LSET out of range ...) is journalled too: replaying it fails the same
//     way and changes nothing;
//   - Snapshot / Restore copy the whole state (database + journal);
//   - LoadPrefix(j, k) resets the database and re-executes the first k commands of a journal:
//     exactly the store a process that died after k storage commands leaves behind;
//   - Mark(x) inserts a caller supplied marker into the same timeline as the journal (used to
//     interleave "acknowledgement sent" events with the storage commands).
//
// Commands are executed one at a time under one mutex (redis is single threaded), pipelined
// requests on one connection are answered in order.

import (
	"bufio"
	"bytes"
	"fmt"
	"io"
	"net"
	"sort"
	"strconv"
	"strings"
	"sync"
	"sync/atomic"
)

type respCmd [][]byte // name, args...

func (c respCmd) Sx() *Sx {
	xs := []*Sx{A(strings.ToLower(string(c[0])))}
	for _, a := range c[1:] {
		xs = append(xs, B(a))
	}
	return L(xs...)
}

func respCmdOfSx(x *Sx) respCmd {
	c := respCmd{[]byte(x.List[0].Atom)}
	for _, a := range x.List[1:] {
		c = append(c, a.Bytes())
	}
	return c
}

func (c respCmd) clone() respCmd {
	o := make(respCmd, len(c))
	for i, a := range c {
		o[i] = append([]byte{}, a...)
	}
	return o
}

type respHash struct {
	fields []string // insertion order (what a small redis hash returns from HGETALL)
	vals   map[string][]byte
}

type respVal struct {
	hash *respHash
	list [][]byte
}

// one entry of the timeline: a journalled write command or a marker
type respEvent struct {
	Cmd  respCmd
	Mark *Sx
}

type respServer struct {
	mu       sync.Mutex
	ln       net.Listener
	db       map[string]*respVal
	timeline []respEvent
	nWrites  int
	password string
	conns    map[net.Conn]bool
	closed   bool
	ncmd     uint64 // every command handled, reads included (atomic)
	nopen    int64
	wg       sync.WaitGroup
	// FailAfter >= 0: the connection is closed instead of executing a write once that many
	// writes were journalled (a store that becomes unreachable); -1 = never.
	failAfter int
}

func newRespServer() *respServer {
	ln, err := net.Listen("tcp", "127.0.0.1:0")
	if err != nil {
		panic(err)
	}
	s := &respServer{ln: ln, db: map[string]*respVal{}, conns: map[net.Conn]bool{}, failAfter: -1}
	s.wg.Add(1)
	go s.acceptLoop()
	return s
}

func (s *respServer) Addr() string { return s.ln.Addr().String() }

func (s *respServer) Close() {
	s.mu.Lock()
	s.closed = true
	for c := range s.conns {
		c.Close()
	}
	s.mu.Unlock()
	s.ln.Close()
	s.wg.Wait()
}

// DropConns closes every client connection (a process that died) but keeps listening.
func (s *respServer) DropConns() {
	s.mu.Lock()
	for c := range s.conns {
		c.Close()
	}
	s.mu.Unlock()
}

func (s *respServer) Commands() uint64 { return atomic.LoadUint64(&s.ncmd) }

func (s *respServer) acceptLoop() {
	defer s.wg.Done()
	for {
		c, err := s.ln.Accept()
		if err != nil {
			return
		}
		s.mu.Lock()
		if s.closed {
			s.mu.Unlock()
			c.Close()
			return
		}
		s.conns[c] = true
		s.mu.Unlock()
		s.wg.Add(1)
		go s.serve(c)
	}
}

// ---- protocol ----

type respReply struct {
	kind  byte // '+', '-', ':', '$', '*', 'n' (nil bulk)
	str   []byte
	num   int64
	elems []respReply
}

func rOK() respReply               { return respReply{kind: '+', str: []byte("OK")} }
func rErr(msg string) respReply    { return respReply{kind: '-', str: []byte(msg)} }
func rInt(n int64) respReply       { return respReply{kind: ':', num: n} }
func rBulk(b []byte) respReply     { return respReply{kind: '$', str: b} }
func rNil() respReply              { return respReply{kind: 'n'} }
func rArr(e []respReply) respReply { return respReply{kind: '*', elems: e} }
func rWrongType() respReply {
	return rErr("WRONGTYPE Operation against a key holding the wrong kind of value")
}
func rArity(name string) respReply {
	return rErr("ERR wrong number of arguments for '" + strings.ToLower(name) + "' command")
}
func rNotInt() respReply { return rErr("ERR value is not an integer or out of range") }

func (r respReply) write(w *bufio.Writer) {
	switch r.kind {
	case '+', '-':
		w.WriteByte(r.kind)
		w.Write(r.str)
		w.WriteString("\r\n")
	case ':':
		w.WriteByte(':')
		w.WriteString(strconv.FormatInt(r.num, 10))
		w.WriteString("\r\n")
	case '$':
		w.WriteByte('$')
		w.WriteString(strconv.Itoa(len(r.str)))
		w.WriteString("\r\n")
		w.Write(r.str)
		w.WriteString("\r\n")
	case 'n':
		w.WriteString("$-1\r\n")
	case '*':
		w.WriteByte('*')
		w.WriteString(strconv.Itoa(len(r.elems)))
		w.WriteString("\r\n")
		for _, e := range r.elems {
			e.write(w)
		}
	}
}

func (r respReply) isErr() bool { return r.kind == '-' }

func respReadLine(br *bufio.Reader) ([]byte, error) {
	line, err := br.ReadBytes('\n')
	if err != nil {
		return nil, err
	}
	if len(line) < 2 || line[len(line)-2] != '\r' {
		return nil, fmt.Errorf("bad line")
	}
	return line[:len(line)-2], nil
}

// reads one request: an array of bulk strings (what every client library sends), or an
// inline command (space separated words)
func respReadCmd(br *bufio.Reader) (respCmd, error) {
	line, err := respReadLine(br)
	if err != nil {
		return nil, err
	}
	if len(line) == 0 {
		return respCmd{}, nil
	}
	if line[0] != '*' {
		cmd := respCmd{}
		for _, w := range bytes.Fields(line) {
			cmd = append(cmd, append([]byte{}, w...))
		}
		return cmd, nil
	}
	n, err := strconv.Atoi(string(line[1:]))
	if err != nil || n < 0 || n > 1<<20 {
		return nil, fmt.Errorf("bad multibulk length")
	}
	cmd := make(respCmd, 0, n)
	for i := 0; i < n; i++ {
		l, err := respReadLine(br)
		if err != nil {
			return nil, err
		}
		if len(l) == 0 || l[0] != '$' {
			return nil, fmt.Errorf("expected bulk")
		}
		bl, err := strconv.Atoi(string(l[1:]))
		if err != nil || bl < 0 || bl > 512<<20 {
			return nil, fmt.Errorf("bad bulk length")
		}
		b := make([]byte, bl+2)
		if _, err := io.ReadFull(br, b); err != nil {
			return nil, err
		}
		if b[bl] != '\r' || b[bl+1] != '\n' {
			return nil, fmt.Errorf("bad bulk terminator")
		}
		cmd = append(cmd, b[:bl])
	}
	return cmd, nil
}

func (s *respServer) serve(c net.Conn) {
	atomic.AddInt64(&s.nopen, 1)
	defer func() {
		atomic.AddInt64(&s.nopen, -1)
		s.mu.Lock()
		delete(s.conns, c)
		s.mu.Unlock()
		c.Close()
		s.wg.Done()
	}()
	br := bufio.NewReader(c)
	bw := bufio.NewWriter(c)
	authed := false
	for {
		cmd, err := respReadCmd(br)
		if err != nil {
			return
		}
		if len(cmd) == 0 {
			continue
		}
		name := strings.ToUpper(string(cmd[0]))
		var rep respReply
		s.mu.Lock()
		pw := s.password
		switch {
		case name == "AUTH":
			if len(cmd) != 2 && len(cmd) != 3 {
				rep = rArity(name)
			} else if pw == "" {
				rep = rErr("ERR Client sent AUTH, but no password is set")
			} else if string(cmd[len(cmd)-1]) == pw {
				authed = true
				rep = rOK()
			} else {
				rep = rErr("WRONGPASS invalid username-password pair or user is disabled.")
			}
		case pw != "" && !authed:
			rep = rErr("NOAUTH Authentication required.")
		case name == "QUIT":
			s.mu.Unlock()
			rOK().write(bw)
			bw.Flush()
			return
		default:
			if s.failAfter >= 0 && respIsWrite(name) && s.nWrites >= s.failAfter {
				s.mu.Unlock()
				return
			}
			rep = s.execLocked(cmd)
		}
		s.mu.Unlock()
		atomic.AddUint64(&s.ncmd, 1)
		rep.write(bw)
		if br.Buffered() == 0 {
			if bw.Flush() != nil {
				return
			}
		}
	}
}

// ---- command execution ----

var respWrites = map[string]bool{"HSET": true, "HMSET": true, "HDEL": true, "DEL": true, "RPUSH": true, "LPUSH": true,
	"LREM": true, "LSET": true, "FLUSHDB": true, "FLUSHALL": true}

func respIsWrite(name string) bool { return respWrites[name] }

// Exec executes one command directly (no network), journalling it when it is a write.
func (s *respServer) Exec(cmd respCmd) respReply {
	s.mu.Lock()
	defer s.mu.Unlock()
	return s.execLocked(cmd)
}

func (s *respServer) execLocked(cmd respCmd) respReply {
	name := strings.ToUpper(string(cmd[0]))
	if respIsWrite(name) {
		s.timeline = append(s.timeline, respEvent{Cmd: cmd.clone()})
		s.nWrites++
	}
	return respExec(s.db, name, cmd[1:])
}

func respParseInt(b []byte) (int64, bool) {
	// redis: strict decimal, no leading '+', no spaces, no leading zeros except "0"
	s := string(b)
	if s == "" || len(s) > 20 {
		return 0, false
	}
	n, err := strconv.ParseInt(s, 10, 64)
	if err != nil || strconv.FormatInt(n, 10) != s {
		return 0, false
	}
	return n, true
}

func respExec(db map[string]*respVal, name string, a [][]byte) respReply {
	getHash := func(k []byte, create bool) (*respHash, respReply, bool) {
		v := db[string(k)]
		if v == nil {
			if !create {
				return nil, respReply{}, true
			}
			v = &respVal{hash: &respHash{vals: map[string][]byte{}}}
			db[string(k)] = v
		}
		if v.hash == nil {
			return nil, rWrongType(), false
		}
		return v.hash, respReply{}, true
	}
	getList := func(k []byte) (*respVal, respReply, bool) {
		v := db[string(k)]
		if v == nil {
			return nil, respReply{}, true
		}
		if v.hash != nil {
			return nil, rWrongType(), false
		}
		return v, respReply{}, true
	}
	switch name {
	case "PING":
		if len(a) == 0 {
			return respReply{kind: '+', str: []byte("PONG")}
		}
		if len(a) == 1 {
			return rBulk(a[0])
		}
		return rArity(name)
	case "ECHO":
		if len(a) != 1 {
			return rArity(name)
		}
		return rBulk(a[0])
	case "SELECT":
		if len(a) != 1 {
			return rArity(name)
		}
		n, ok := respParseInt(a[0])
		if !ok {
			return rErr("ERR invalid DB index")
		}
		if n < 0 || n > 15 {
			return rErr("ERR DB index is out of range")
		}
		return rOK() // one database: the index is accepted and ignored
	case "FLUSHDB", "FLUSHALL":
		for k := range db {
			delete(db, k)
		}
		return rOK()
	case "DBSIZE":
		return rInt(int64(len(db)))
	case "TYPE":
		if len(a) != 1 {
			return rArity(name)
		}
		v := db[string(a[0])]
		t := "none"
		if v != nil && v.hash != nil {
			t = "hash"
		} else if v != nil {
			t = "list"
		}
		return respReply{kind: '+', str: []byte(t)}
	case "DEL", "EXISTS":
		if len(a) < 1 {
			return rArity(name)
		}
		n := int64(0)
		for _, k := range a {
			if _, ok := db[string(k)]; ok {
				n++
				if name == "DEL" {
					delete(db, string(k))
				}
			}
		}
		return rInt(n)
	case "HSET", "HMSET":
		if len(a) < 3 || len(a)%2 != 1 {
			return rArity(name)
		}
		if v := db[string(a[0])]; v != nil && v.hash == nil {
			return rWrongType()
		}
		h, _, _ := getHash(a[0], true)
		n := int64(0)
		for i := 1; i < len(a); i += 2 {
			f := string(a[i])
			if _, ok := h.vals[f]; !ok {
				h.fields = append(h.fields, f)
				n++
			}
			h.vals[f] = append([]byte{}, a[i+1]...)
		}
		if name == "HMSET" {
			return rOK()
		}
		return rInt(n)
	case "HGET", "HEXISTS":
		if len(a) != 2 {
			return rArity(name)
		}
		h, e, ok := getHash(a[0], false)
		if !ok {
			return e
		}
		var v []byte
		found := false
		if h != nil {
			v, found = h.vals[string(a[1])]
		}
		if name == "HEXISTS" {
			if found {
				return rInt(1)
			}
			return rInt(0)
		}
		if !found {
			return rNil()
		}
		return rBulk(v)
	case "HMGET":
		if len(a) < 2 {
			return rArity(name)
		}
		h, e, ok := getHash(a[0], false)
		if !ok {
			return e
		}
		out := []respReply{}
		for _, f := range a[1:] {
			if h != nil {
				if v, ok := h.vals[string(f)]; ok {
					out = append(out, rBulk(v))
					continue
				}
			}
			out = append(out, rNil())
		}
		return rArr(out)
	case "HGETALL", "HLEN", "HKEYS":
		if len(a) != 1 {
			return rArity(name)
		}
		h, e, ok := getHash(a[0], false)
		if !ok {
			return e
		}
		if name == "HLEN" {
			if h == nil {
				return rInt(0)
			}
			return rInt(int64(len(h.fields)))
		}
		out := []respReply{}
		if h != nil {
			for _, f := range h.fields {
				out = append(out, rBulk([]byte(f)))
				if name == "HGETALL" {
					out = append(out, rBulk(h.vals[f]))
				}
			}
		}
		return rArr(out)
	case "HDEL":
		if len(a) < 2 {
			return rArity(name)
		}
		h, e, ok := getHash(a[0], false)
		if !ok {
			return e
		}
		if h == nil {
			return rInt(0)
		}
		n := int64(0)
		for _, f := range a[1:] {
			if _, ok := h.vals[string(f)]; ok {
				delete(h.vals, string(f))
				for i, x := range h.fields {
					if x == string(f) {
						h.fields = append(h.fields[:i:i], h.fields[i+1:]...)
						break
					}
				}
				n++
			}
		}
		if len(h.fields) == 0 {
			delete(db, string(a[0])) // redis removes a key whose aggregate value became empty
		}
		return rInt(n)
	case "RPUSH", "LPUSH":
		if len(a) < 2 {
			return rArity(name)
		}
		v, e, ok := getList(a[0])
		if !ok {
			return e
		}
		if v == nil {
			v = &respVal{}
			db[string(a[0])] = v
		}
		for _, x := range a[1:] {
			if name == "RPUSH" {
				v.list = append(v.list, append([]byte{}, x...))
			} else {
				v.list = append([][]byte{append([]byte{}, x...)}, v.list...)
			}
		}
		return rInt(int64(len(v.list)))
	case "LLEN":
		if len(a) != 1 {
			return rArity(name)
		}
		v, e, ok := getList(a[0])
		if !ok {
			return e
		}
		if v == nil {
			return rInt(0)
		}
		return rInt(int64(len(v.list)))
	case "LRANGE":
		if len(a) != 3 {
			return rArity(name)
		}
		st, ok1 := respParseInt(a[1])
		en, ok2 := respParseInt(a[2])
		if !ok1 || !ok2 {
			return rNotInt()
		}
		v, e, ok := getList(a[0])
		if !ok {
			return e
		}
		out := []respReply{}
		if v != nil {
			n := int64(len(v.list))
			if st < 0 {
				st += n
			}
			if en < 0 {
				en += n
			}
			if st < 0 {
				st = 0
			}
			if en >= n {
				en = n - 1
			}
			for i := st; i <= en; i++ { // st > en (or st >= n): empty
				out = append(out, rBulk(v.list[i]))
			}
		}
		return rArr(out)
	case "LINDEX":
		if len(a) != 2 {
			return rArity(name)
		}
		i, ok1 := respParseInt(a[1])
		if !ok1 {
			return rNotInt()
		}
		v, e, ok := getList(a[0])
		if !ok {
			return e
		}
		if v == nil {
			return rNil()
		}
		if i < 0 {
			i += int64(len(v.list))
		}
		if i < 0 || i >= int64(len(v.list)) {
			return rNil()
		}
		return rBulk(v.list[i])
	case "LSET":
		if len(a) != 3 {
			return rArity(name)
		}
		v, e, ok := getList(a[0])
		if !ok {
			return e
		}
		if v == nil {
			return rErr("ERR no such key")
		}
		i, ok1 := respParseInt(a[1])
		if !ok1 {
			return rNotInt()
		}
		if i < 0 {
			i += int64(len(v.list))
		}
		if i < 0 || i >= int64(len(v.list)) {
			return rErr("ERR index out of range")
		}
		v.list[i] = append([]byte{}, a[2]...)
		return rOK()
	case "LREM":
		if len(a) != 3 {
			return rArity(name)
		}
		cnt, ok1 := respParseInt(a[1])
		if !ok1 {
			return rNotInt()
		}
		v, e, ok := getList(a[0])
		if !ok {
			return e
		}
		if v == nil {
			return rInt(0)
		}
		removed := int64(0)
		if cnt >= 0 { // head to tail; 0 = all
			out := v.list[:0:0]
			for _, x := range v.list {
				if bytes.Equal(x, a[2]) && (cnt == 0 || removed < cnt) {
					removed++
					continue
				}
				out = append(out, x)
			}
			v.list = out
		} else { // tail to head
			keep := make([]bool, len(v.list))
			for i := len(v.list) - 1; i >= 0; i-- {
				if bytes.Equal(v.list[i], a[2]) && removed < -cnt {
					removed++
				} else {
					keep[i] = true
				}
			}
			out := v.list[:0:0]
			for i, x := range v.list {
				if keep[i] {
					out = append(out, x)
				}
			}
			v.list = out
		}
		if len(v.list) == 0 {
			delete(db, string(a[0]))
		}
		return rInt(removed)
	case "KEYS":
		if len(a) != 1 {
			return rArity(name)
		}
		out := []respReply{}
		for _, k := range respSortedKeys(db) {
			if respGlob(a[0], []byte(k)) {
				out = append(out, rBulk([]byte(k)))
			}
		}
		return rArr(out)
	case "SCAN":
		// SCAN cursor [MATCH pattern] [COUNT count]: the cursor is a position in the sorted key
		// space; like redis, COUNT keys are visited per call and MATCH filters afterwards, so a
		// page may be empty while the cursor is not 0.
		if len(a) < 1 {
			return rArity(name)
		}
		cur, ok := respParseInt(a[0])
		if !ok || cur < 0 {
			return rErr("ERR invalid cursor")
		}
		count := int64(10)
		var pat []byte
		for i := 1; i < len(a); i += 2 {
			if i+1 >= len(a) {
				return rErr("ERR syntax error")
			}
			switch strings.ToUpper(string(a[i])) {
			case "MATCH":
				pat = a[i+1]
			case "COUNT":
				c, ok := respParseInt(a[i+1])
				if !ok {
					return rNotInt()
				}
				if c < 1 {
					return rErr("ERR syntax error")
				}
				count = c
			default:
				return rErr("ERR syntax error")
			}
		}
		keys := respSortedKeys(db)
		out := []respReply{}
		// Redis may return no element at all with a non-zero cursor (COUNT is a hint, MATCH filters afterwards, the
		// table may be sparse).  The stand-in makes that the rule rather than the exception: the first call of an
		// iteration (cursor 0) over a non-empty key space returns an empty page; real positions are offset by
		// scanBase.  A caller must go on until the cursor comes back as 0.
		const scanBase = int64(1) << 32
		if cur == 0 {
			if len(keys) == 0 {
				return rArr([]respReply{rBulk([]byte("0")), rArr(out)})
			}
			return rArr([]respReply{rBulk([]byte(strconv.FormatInt(scanBase, 10))), rArr(out)})
		}
		if cur < scanBase {
			return rErr("ERR invalid cursor")
		}
		pos := cur - scanBase
		i := pos
		for ; i < int64(len(keys)) && i < pos+count; i++ {
			if pat == nil || respGlob(pat, []byte(keys[i])) {
				out = append(out, rBulk([]byte(keys[i])))
			}
		}
		next := scanBase + i
		if i >= int64(len(keys)) {
			next = 0
		}
		return rArr([]respReply{rBulk([]byte(strconv.FormatInt(next, 10))), rArr(out)})
	}
	return rErr("ERR unknown command '" + strings.ToLower(name) + "'")
}

func respSortedKeys(db map[string]*respVal) []string {
	ks := make([]string, 0, len(db))
	for k := range db {
		ks = append(ks, k)
	}
	sort.Strings(ks)
	return ks
}

// redis' glob matcher (util.c stringmatchlen, case sensitive)
func respGlob(p, s []byte) bool {
	for len(p) > 0 {
		switch p[0] {
		case '*':
			for len(p) > 1 && p[1] == '*' {
				p = p[1:]
			}
			if len(p) == 1 {
				return true
			}
			for i := 0; i <= len(s); i++ {
				if respGlob(p[1:], s[i:]) {
					return true
				}
			}
			return false
		case '?':
			if len(s) == 0 {
				return false
			}
			s = s[1:]
		case '[':
			if len(s) == 0 {
				return false
			}
			p = p[1:]
			not := len(p) > 0 && p[0] == '^'
			if not {
				p = p[1:]
			}
			match := false
			for {
				if len(p) == 0 {
					break
				}
				if p[0] == '\\' && len(p) >= 2 {
					p = p[1:]
					if p[0] == s[0] {
						match = true
					}
				} else if p[0] == ']' {
					break
				} else if len(p) >= 3 && p[1] == '-' {
					lo, hi := p[0], p[2]
					if lo > hi {
						lo, hi = hi, lo
					}
					p = p[2:]
					if s[0] >= lo && s[0] <= hi {
						match = true
					}
				} else if p[0] == s[0] {
					match = true
				}
				p = p[1:]
			}
			if not {
				match = !match
			}
			if !match {
				return false
			}
			s = s[1:]
			if len(p) == 0 {
				return len(s) == 0
			}
		case '\\':
			if len(p) >= 2 {
				p = p[1:]
			}
			fallthrough
		default:
			if len(s) == 0 || p[0] != s[0] {
				return false
			}
			s = s[1:]
		}
		p = p[1:]
	}
	return len(s) == 0
}

// ---- journal, snapshots, prefixes ----

// Journal returns the write commands executed so far, in order.
func (s *respServer) Journal() []respCmd {
	s.mu.Lock()
	defer s.mu.Unlock()
	out := []respCmd{}
	for _, e := range s.timeline {
		if e.Cmd != nil {
			out = append(out, e.Cmd)
		}
	}
	return out
}

// Timeline returns journal entries and markers in the order they happened.
func (s *respServer) Timeline() []respEvent {
	s.mu.Lock()
	defer s.mu.Unlock()
	return append([]respEvent{}, s.timeline...)
}

func (s *respServer) Writes() int {
	s.mu.Lock()
	defer s.mu.Unlock()
	return s.nWrites
}

// Mark appends a marker to the timeline and returns the number of journalled writes before it.
func (s *respServer) Mark(x *Sx) int {
	s.mu.Lock()
	defer s.mu.Unlock()
	s.timeline = append(s.timeline, respEvent{Mark: x})
	return s.nWrites
}

type respSnap struct {
	db       map[string]*respVal
	timeline []respEvent
	nWrites  int
}

func respCopyDB(db map[string]*respVal) map[string]*respVal {
	o := make(map[string]*respVal, len(db))
	for k, v := range db {
		nv := &respVal{}
		if v.hash != nil {
			nv.hash = &respHash{fields: append([]string{}, v.hash.fields...), vals: map[string][]byte{}}
			for f, x := range v.hash.vals {
				nv.hash.vals[f] = append([]byte{}, x...)
			}
		} else {
			for _, x := range v.list {
				nv.list = append(nv.list, append([]byte{}, x...))
			}
		}
		o[k] = nv
	}
	return o
}

func (s *respServer) Snapshot() *respSnap {
	s.mu.Lock()
	defer s.mu.Unlock()
	return &respSnap{db: respCopyDB(s.db), timeline: append([]respEvent{}, s.timeline...), nWrites: s.nWrites}
}

func (s *respServer) Restore(sn *respSnap) {
	s.mu.Lock()
	defer s.mu.Unlock()
	s.db = respCopyDB(sn.db)
	s.timeline = append([]respEvent{}, sn.timeline...)
	s.nWrites = sn.nWrites
}

// LoadPrefix makes the store what it is after exactly the first k commands of journal j
// (executed on an empty database); the journal of s becomes that prefix.
func (s *respServer) LoadPrefix(j []respCmd, k int) {
	s.mu.Lock()
	defer s.mu.Unlock()
	s.db = map[string]*respVal{}
	s.timeline = nil
	s.nWrites = 0
	for i := 0; i < k && i < len(j); i++ {
		s.execLocked(j[i])
	}
}

// Dump is the canonical content of the database: keys sorted, hash fields sorted.
func (s *respServer) Dump() *Sx {
	s.mu.Lock()
	defer s.mu.Unlock()
	return respDump(s.db)
}

func respDump(db map[string]*respVal) *Sx {
	out := []*Sx{}
	for _, k := range respSortedKeys(db) {
		v := db[k]
		if v.hash != nil {
			fs := append([]string{}, v.hash.fields...)
			sort.Strings(fs)
			xs := []*Sx{A("hash"), S(k)}
			for _, f := range fs {
				xs = append(xs, L(S(f), B(v.hash.vals[f])))
			}
			out = append(out, L(xs...))
		} else {
			xs := []*Sx{A("list"), S(k)}
			for _, x := range v.list {
				xs = append(xs, B(x))
			}
			out = append(out, L(xs...))
		}
	}
	return L(out...)
}

// List returns a copy of the list stored under key (nil when absent or not a list).
func (s *respServer) List(key string) [][]byte {
	s.mu.Lock()
	defer s.mu.Unlock()
	v := s.db[key]
	if v == nil || v.hash != nil {
		return nil
	}
	out := [][]byte{}
	for _, x := range v.list {
		out = append(out, append([]byte{}, x...))
	}
	return out
}

// RewriteList replaces every element of the list under key by f(element) without journalling
// (used to let time pass: stored timestamps are moved into the past).
func (s *respServer) RewriteList(key string, f func([]byte) []byte) {
	s.mu.Lock()
	defer s.mu.Unlock()
	v := s.db[key]
	if v == nil || v.hash != nil {
		return
	}
	for i, x := range v.list {
		v.list[i] = f(append([]byte{}, x...))
	}
}

// BackdateSessions moves the connected_at field of every stored session hash d seconds into the past without
// journalling (a broker that crashed long after its clients connected: the stored connect time is old, the
// sessions were alive until the crash).
func (s *respServer) BackdateSessions(d int64) {
	s.mu.Lock()
	defer s.mu.Unlock()
	for k, v := range s.db {
		if v.hash == nil || !strings.HasPrefix(k, "session:") {
			continue
		}
		if old, ok := v.hash.vals["connected_at"]; ok {
			if t, err := strconv.ParseInt(string(old), 10, 64); err == nil && t > d {
				v.hash.vals["connected_at"] = []byte(strconv.FormatInt(t-d, 10))
			}
		}
	}
}
