package main

// Scenario generator of suite `wire` and generator building blocks for other wire-level suites.
// Everything is offline and deterministic: the scripted clients never react to what they
// receive; acknowledgements of broker-originated publishes use the symbolic packet ids
// (rx K) / (rxrel K) that the runner resolves at send time.

import "strings"

var wireGenTopics = []string{"a", "a", "b", "a/b", "a/a", "b/a", "a/b/a"}
var wireGenFilters = []string{"a", "b", "a/b", "+", "a/+", "#", "a/#", "+/b", "a/b", "+/+", "b/#",
	"$share/g/a", "$share/g/#", "$share/g/a/+", "$share/h/a"}
var wireGenCids = []string{"c1", "c2", "c3"}

// wireGenCfg draws a broker configuration (mostly the defaults, small limits now and then).
func wireGenCfg(r *Rng) *Sx {
	maxInflight := Pick(r, []int{100, 100, 100, 1, 2, 3})
	maxQueued := Pick(r, []int{1000, 1000, 1000, 3, 5})
	if maxQueued < maxInflight {
		maxQueued = maxInflight
	}
	return K("cfg",
		K("delivery", A(Pick(r, []string{"onlyonce", "overlap"}))),
		K("max_inflight", I(maxInflight)),
		K("max_queued", I(maxQueued)),
		K("queue_qos0", Bool(!r.Chance(1, 4))),
		K("session_expiry", I(Pick(r, []int{7200, 7200, 60, 2, 1, 0}))),
		K("message_expiry", I(Pick(r, []int{7200, 7200, 60, 1, 0}))),
		K("recv_max", I(Pick(r, []int{100, 100, 100, 1, 2}))),
		K("alias_max", I(Pick(r, []int{10, 10, 2, 1, 0}))),
		K("max_packet", I(Pick(r, []int{268435456, 268435456, 268435456, 60, 30}))),
		K("max_qos", I(Pick(r, []int{2, 2, 2, 2, 1, 0}))),
		K("retain_avail", Bool(!r.Chance(1, 8))),
		K("wildcard", Bool(!r.Chance(1, 8))),
		K("subid", Bool(!r.Chance(1, 8))),
		K("shared", Bool(!r.Chance(1, 8))),
		K("max_keepalive", I(Pick(r, []int{300, 300, 60, 10, 0}))),
		K("allow_zero_len", Bool(!r.Chance(1, 5))),
		K("inflight_expiry", I(Pick(r, []int{30, 30, 1}))),
	)
}

func wireGenUser(r *Rng) *Sx {
	return K("user", S(Pick(r, []string{"k", "k", "", "key"})), S(Pick(r, []string{"v", "", "w"})))
}

// wireGenPubProps: application message properties of a v5 PUBLISH / will.
func wireGenPubProps(r *Rng) []*Sx {
	var ps []*Sx
	if r.Chance(1, 3) {
		ps = append(ps, K("msgexpiry", I(Pick(r, []int{0, 1, 2, 60, 100000}))))
	}
	if r.Chance(1, 5) {
		ps = append(ps, K("pfmt", I(Pick(r, []int{0, 1, 1, 2}))))
	}
	if r.Chance(1, 5) {
		ps = append(ps, K("ctype", S(Pick(r, []string{"", "t", "text/plain"}))))
	}
	if r.Chance(1, 5) {
		ps = append(ps, K("resp", S(Pick(r, []string{"r", "a/b", ""}))))
	}
	if r.Chance(1, 5) {
		ps = append(ps, K("corr", B(r.Bytes(r.Range(0, 3)))))
	}
	for r.Chance(1, 5) {
		ps = append(ps, wireGenUser(r))
	}
	return ps
}

// genConnect builds a (connect C VER ...) step.
func genConnect(r *Rng, c, ver int, cid string, clean bool) *Sx {
	items := []*Sx{A("connect"), I(c), I(ver), K("cid", S(cid)), K("clean", Bool(clean)),
		K("keepalive", I(Pick(r, []int{0, 0, 60, 60, 400, 1})))}
	if r.Chance(1, 4) {
		items = append(items, K("user", S(Pick(r, []string{"u", "u", "admin", ""}))))
		if r.Chance(2, 3) {
			items = append(items, K("pass", S(Pick(r, []string{"p", "p", "bad", ""}))))
		}
	}
	if r.Chance(1, 3) {
		var wp []*Sx
		if ver == 5 {
			if r.Chance(1, 2) {
				wp = append(wp, K("willdelay", I(Pick(r, []int{0, 1, 1, 5, 100}))))
			}
			wp = append(wp, wireGenPubProps(r)...)
		}
		items = append(items, K("will", K("topic", S(Pick(r, wireGenTopics))), K("payload", B(append([]byte("w"), r.Bytes(r.Intn(2))...))),
			K("qos", I(r.Intn(3))), K("retain", Bool(r.Chance(1, 4))), K("props", wp...)))
	}
	var ps []*Sx
	if ver == 5 {
		if r.Chance(2, 3) {
			ps = append(ps, K("sei", U(uint64(Pick(r, []int{0, 1, 2, 60, 60, 100000, 4294967295})))))
		}
		if r.Chance(1, 4) {
			ps = append(ps, K("recvmax", I(Pick(r, []int{1, 2, 10, 65535}))))
		}
		if r.Chance(1, 8) {
			ps = append(ps, K("maxpkt", I(Pick(r, []int{20, 40, 100, 100000}))))
		}
		if r.Chance(1, 4) {
			ps = append(ps, K("aliasmax", I(Pick(r, []int{0, 1, 2, 5}))))
		}
		if r.Chance(1, 3) {
			ps = append(ps, K("reqprob", I(Pick(r, []int{0, 1, 1}))))
		}
		if r.Chance(1, 10) {
			ps = append(ps, K("reqresp", I(r.Intn(2))))
		}
		if r.Chance(1, 10) {
			ps = append(ps, wireGenUser(r))
		}
		if r.Chance(1, 40) {
			ps = append(ps, K("authmethod", S("m")), K("authdata", B(r.Bytes(2))))
		}
	}
	items = append(items, K("props", ps...))
	return L(items...)
}

// genSubscribe builds (send C (subscribe PID (props..) (t ..)..)).
func genSubscribe(r *Rng, c, ver, pid int) *Sx {
	var ps []*Sx
	if ver == 5 {
		if r.Chance(1, 3) {
			ps = append(ps, K("subid", I(Pick(r, []int{1, 2, 3, 3, 0, 268435455}))))
		}
		if r.Chance(1, 10) {
			ps = append(ps, wireGenUser(r))
		}
	}
	items := []*Sx{A("subscribe"), I(pid), K("props", ps...)}
	for k := 0; k < Pick(r, []int{1, 1, 1, 2, 3}); k++ {
		f := Pick(r, wireGenFilters)
		if r.Chance(1, 40) {
			f = Pick(r, []string{"", "a/#/b", "+a", "$share/g", "$share//a", "a\x00"})
		}
		nl, rap, rh := 0, 0, 0
		if ver == 5 {
			if r.Chance(1, 4) {
				nl = 1
			}
			if r.Chance(1, 3) {
				rap = 1
			}
			rh = Pick(r, []int{0, 0, 0, 1, 2})
			if r.Chance(1, 60) {
				rh = 3
			}
		}
		items = append(items, L(A("t"), S(f), I(Pick(r, []int{0, 1, 1, 2, 2})), I(nl), I(rap), I(rh)))
	}
	return L(A("send"), I(c), L(items...))
}

// genUnsubscribe builds (send C (unsubscribe PID (props) xFILTER..)).
func genUnsubscribe(r *Rng, c, ver, pid int) *Sx {
	items := []*Sx{A("unsubscribe"), I(pid), K("props")}
	for k := 0; k < Pick(r, []int{1, 1, 2}); k++ {
		items = append(items, S(Pick(r, wireGenFilters)))
	}
	return L(A("send"), I(c), L(items...))
}

// genPublish builds (send C (publish ..)); qos>0 publishes use the packet id pid.
func genPublish(r *Rng, c, ver, pid int, aliasMax int) *Sx {
	qos := Pick(r, []int{0, 1, 1, 2, 2})
	topic := Pick(r, wireGenTopics)
	if r.Chance(1, 40) {
		topic = Pick(r, []string{"", "a/+", "#", "$SYS/x", "a\x00b"})
	}
	payload := append([]byte(strings.ToUpper(topic[:min(1, len(topic))])), r.Bytes(r.Intn(3))...)
	if r.Chance(1, 10) {
		payload = nil
	}
	var ps []*Sx
	if ver == 5 {
		ps = wireGenPubProps(r)
		if r.Chance(1, 5) {
			al := r.Range(0, aliasMax+1)
			ps = append(ps, K("alias", I(al)))
			if r.Chance(1, 3) {
				topic = "" // refer to a (hopefully) established alias
			}
		}
		if r.Chance(1, 60) {
			ps = append(ps, K("subid", I(1)))
		}
	}
	if qos == 0 {
		pid = 0
	}
	dup := r.Chance(1, 12) && qos > 0
	return L(A("send"), I(c), L(A("publish"), Bool(dup), I(qos), Bool(r.Chance(1, 3)), S(topic), B(payload), I(pid), K("props", ps...)))
}

// genAck builds (send C (KIND PID CODE (props..))) where PID may be symbolic.
func genAck(r *Rng, c, ver int, kind string, pid *Sx) *Sx {
	code := 0
	var ps []*Sx
	if ver == 5 && r.Chance(1, 8) {
		code = Pick(r, []int{0, 16, 128, 131, 145, 146})
		if kind == "pubrel" || kind == "pubcomp" {
			code = Pick(r, []int{0, 146})
		}
		if r.Chance(1, 3) {
			ps = append(ps, K("reason", S("why")))
		}
	}
	return L(A("send"), I(c), L(A(kind), pid, I(code), K("props", ps...)))
}

func wireRx(k int) *Sx    { return L(A("rx"), I(k)) }
func wireRxRel(k int) *Sx { return L(A("rxrel"), I(k)) }

type wireGenSock struct {
	id, ver   int
	cid       string
	open      bool
	connected bool
	pid       int   // last packet id used by the script on this connection
	ack       int   // next (rx K) to acknowledge
	rel       int   // next (rxrel K) to complete
	recs      int   // PUBRECs sent for broker publishes
	myQ2      []int // own QoS2 packet ids waiting for our PUBREL
	aliasMax  int
	subs      int
}

func wireGen(r *Rng, i int) *Sx {
	cfg := wireGenCfg(r)
	aliasMax := L(cfg.List[1:]...).Field1("alias_max").Int()
	nsock := r.Range(2, 4)
	ncid := r.Range(2, 3)
	socks := make([]*wireGenSock, nsock)
	for k := range socks {
		socks[k] = &wireGenSock{id: k + 1, ver: Pick(r, []int{4, 5, 5, 4, 5, 3})}
	}
	var steps []*Sx
	emit := func(s *Sx) { steps = append(steps, s) }
	connect := func(s *wireGenSock) {
		cid := wireGenCids[r.Intn(ncid)]
		if s.cid != "" && r.Chance(3, 4) {
			cid = s.cid // reconnect under the same identity
		}
		if r.Chance(1, 25) {
			cid = ""
		}
		clean := r.Chance(1, 2)
		if r.Chance(1, 6) {
			s.ver = Pick(r, []int{3, 4, 5})
		}
		if s.open {
			emit(L(A("close"), I(s.id))) // (connect C ..) on an open label would close it implicitly
		}
		emit(genConnect(r, s.id, s.ver, cid, clean))
		*s = wireGenSock{id: s.id, ver: s.ver, cid: cid, open: true, connected: true, aliasMax: aliasMax}
		// a take-over makes the broker close the other connection of the same identity
		for _, o := range socks {
			if o != s && o.connected && o.cid == cid && cid != "" {
				o.connected = false
			}
		}
	}
	conn := func() *wireGenSock {
		var l []*wireGenSock
		for _, s := range socks {
			if s.connected {
				l = append(l, s)
			}
		}
		if len(l) == 0 {
			return nil
		}
		return Pick(r, l)
	}
	connect(socks[0])
	if r.Chance(3, 4) {
		connect(socks[1])
	}
	n := r.Range(5, 40)
	slept := false
	for len(steps) < n {
		s := conn()
		x := r.Intn(100)
		switch {
		case s == nil || x < 10:
			var l []*wireGenSock
			for _, q := range socks {
				if !q.connected {
					l = append(l, q)
				}
			}
			if len(l) == 0 || r.Chance(1, 12) {
				l = socks
			}
			connect(Pick(r, l))
		case x < 30:
			s.pid++
			emit(genSubscribe(r, s.id, s.ver, s.pid))
			s.subs++
		case x < 34:
			s.pid++
			emit(genUnsubscribe(r, s.id, s.ver, s.pid))
		case x < 60:
			s.pid++
			p := genPublish(r, s.id, s.ver, s.pid, s.aliasMax)
			emit(p)
			if p.List[2].List[2].Atom == "2" {
				s.myQ2 = append(s.myQ2, s.pid)
			}
			if r.Chance(1, 15) {
				emit(p) // literal retransmission of the same packet
			}
		case x < 74 && s.subs == 0 && r.Chance(2, 3):
			s.pid++
			emit(genSubscribe(r, s.id, s.ver, s.pid))
			s.subs++
		case x < 74:
			// acknowledge something the broker (probably) sent to us
			switch y := r.Intn(10); {
			case y < 4:
				emit(genAck(r, s.id, s.ver, "puback", wireRx(s.ack)))
				s.ack++
			case y < 7:
				emit(genAck(r, s.id, s.ver, "pubrec", wireRx(s.ack)))
				s.ack++
				s.recs++
			case y < 9:
				emit(genAck(r, s.id, s.ver, "pubcomp", wireRxRel(s.rel)))
				s.rel++
			default:
				k := r.Intn(s.ack + 1) // repeated / out of order acknowledgement
				emit(genAck(r, s.id, s.ver, Pick(r, []string{"puback", "pubrec", "pubcomp"}), wireRx(k)))
			}
		case x < 79:
			// complete (or not) one of our own QoS2 publishes
			if len(s.myQ2) > 0 {
				k := r.Intn(len(s.myQ2))
				emit(genAck(r, s.id, s.ver, "pubrel", I(s.myQ2[k])))
				if r.Chance(4, 5) {
					s.myQ2 = append(s.myQ2[:k], s.myQ2[k+1:]...)
				}
			} else {
				emit(genAck(r, s.id, s.ver, "pubrel", I(r.Range(1, 3))))
			}
		case x < 84:
			emit(L(A("close"), I(s.id)))
			s.open, s.connected = false, false
		case x < 85:
			// a second CONNECT on a live connection (protocol error)
			c := genConnect(r, s.id, s.ver, s.cid, r.Bool())
			emit(L(A("send"), I(s.id), L(append([]*Sx{A("connect")}, c.List[2:]...)...)))
			s.connected = false
		case x < 88:
			var ps []*Sx
			code := 0
			if s.ver == 5 {
				code = Pick(r, []int{0, 0, 4, 4, 129})
				if r.Chance(1, 3) {
					ps = append(ps, K("sei", I(Pick(r, []int{0, 1, 60}))))
				}
			}
			emit(L(A("send"), I(s.id), L(A("disconnect"), I(code), K("props", ps...))))
			s.connected = false
			if r.Chance(3, 4) { // a real client closes its socket after DISCONNECT; gmqtt itself does not
				emit(L(A("close"), I(s.id)))
				s.open = false
			}
		case x < 92:
			emit(L(A("api_publish"), sxMsg(genMsg(r, Pick(r, wireGenTopics)))))
		case x < 94:
			cid := Pick(r, wireGenCids[:ncid])
			emit(L(A("terminate"), S(cid)))
			for _, o := range socks {
				if o.connected && o.cid == cid {
					o.connected = false
				}
			}
		case x < 97:
			emit(L(A("advance"), I(Pick(r, []int{500, 1500, 2500, 61000, 7300000}))))
			if r.Chance(3, 4) {
				emit(L(A("expire_check")))
			}
		case x < 98:
			emit(L(A("send"), I(s.id), L(A("pingreq"))))
		case x < 99:
			if !slept && r.Chance(1, 8) {
				emit(L(A("sleep"), I(1200)))
				slept = true
			} else {
				emit(L(A("inspect")))
			}
		default:
			switch r.Intn(4) {
			case 0:
				emit(L(A("send"), I(s.id), L(A("raw"), B(r.Bytes(r.Range(1, 6))))))
			case 1:
				q := socks[r.Intn(nsock)]
				if !q.open {
					emit(L(A("open"), I(q.id)))
					q.open = true
					emit(L(A("send"), I(q.id), L(A("publish"), A("0"), A("0"), A("0"), S("a"), S("x"), A("0"), K("props"))))
				}
			case 2:
				emit(L(A("send"), I(s.id), L(A("auth"), I(Pick(r, []int{0, 24, 25})), K("props", K("authmethod", S("m"))))))
			default:
				emit(L(A("send"), I(s.id), L(A("subscribe"), I(0), K("props"))))
			}
		}
	}
	emit(L(A("inspect")))
	return L(cfg, K("steps", steps...))
}
