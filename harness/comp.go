package main

import (
	"github.com/DrmagicE/gmqtt/config"
	umem "github.com/DrmagicE/gmqtt/persistence/unack/mem"
	"github.com/DrmagicE/gmqtt/pkg/packets"
	"github.com/DrmagicE/gmqtt/server"
	"github.com/DrmagicE/gmqtt/topicalias/fifo"
)

// Suites lim (packet id limiter), alias (fifo topic alias manager), unack (mem unack store).

func limRun(in *Sx) *Sx {
	l := server.VerifNewLimiter(uint16(in.Field1("limit").Int()))
	outs := []*Sx{}
	for _, o := range in.Field("ops") {
		res := A("none")
		switch o.List[0].Atom {
		case "poll":
			ids, blocked := l.Poll(uint16(o.List[1].Int()))
			if blocked {
				res = A("blocked")
			} else if ids == nil {
				res = A("exit")
			} else {
				xs := []*Sx{A("ids")}
				for _, id := range ids {
					xs = append(xs, I(int(id)))
				}
				res = L(xs...)
			}
		case "release":
			l.Release(uint16(o.List[1].Int()))
		case "batch":
			ids := []uint16{}
			for _, x := range o.List[1:] {
				ids = append(ids, uint16(x.Int()))
			}
			l.BatchRelease(ids)
		case "mark":
			l.MarkUsed(uint16(o.List[1].Int()))
		case "close":
			l.Close()
		case "setfree":
			l.SetFreePid(uint16(o.List[1].Int()))
		}
		outs = append(outs, L(res, I(int(l.Used()))))
	}
	return L(K("outs", outs...))
}

func limGen(r *Rng, i int) *Sx {
	limit := Pick(r, []int{1, 1, 2, 3, 5, 10, 100, 65535})
	ops := []*Sx{}
	held := []int{}
	next := 1
	if r.Chance(1, 3) {
		next = Pick(r, []int{65530, 65534, 65535})
		ops = append(ops, L(A("setfree"), I(next)))
	}
	for k := 0; k < r.Range(3, 40); k++ {
		switch x := r.Intn(100); {
		case x < 40:
			m := Pick(r, []int{0, 1, 1, 2, 3, 5, 100})
			ops = append(ops, L(A("poll"), I(m)))
			for j := 0; j < m && len(held) < limit; j++ { // approximate bookkeeping, only guides generation
				held = append(held, next)
				next++
				if next > 65535 {
					next = 1
				}
			}
		case x < 65:
			id := r.Range(1, 12)
			if len(held) > 0 && r.Chance(3, 4) {
				k := r.Intn(len(held))
				id = held[k]
				held = append(held[:k], held[k+1:]...)
			}
			ops = append(ops, L(A("release"), I(id)))
		case x < 75:
			xs := []*Sx{A("batch")}
			for j := 0; j < r.Range(0, 3) && len(held) > 0; j++ {
				k := r.Intn(len(held))
				xs = append(xs, I(held[k]))
				held = append(held[:k], held[k+1:]...)
			}
			ops = append(ops, L(xs...))
		case x < 90:
			id := Pick(r, []int{1, 2, 3, 7, 65535, 65534, r.Range(1, 20)})
			dup := false
			for _, h := range held {
				if h == id {
					dup = true
				}
			}
			if dup && r.Chance(9, 10) { // marking an id that is already in use is caller misuse: rare
				continue
			}
			held = append(held, id)
			ops = append(ops, L(A("mark"), I(id)))
		case x < 93:
			ops = append(ops, L(A("close")))
		default:
			ops = append(ops, L(A("setfree"), I(Pick(r, []int{1, 65535, r.Range(1, 30)}))))
		}
	}
	return L(K("limit", I(limit)), K("ops", ops...))
}

func aliasRun(in *Sx) (out *Sx) {
	max := uint16(in.Field1("max").Int())
	m := fifo.New(config.Config{}, max, "c")
	outs := []*Sx{}
	defer func() {
		if e := recover(); e != nil {
			outs = append(outs, L(A("panic")))
			out = L(K("outs", outs...))
		}
	}()
	for _, t := range in.Field("topics") {
		a, ex := m.Check(&packets.Publish{TopicName: t.Bytes()})
		outs = append(outs, L(A("ok"), I(int(a)), Bool(ex)))
	}
	return L(K("outs", outs...))
}

func aliasGen(r *Rng, i int) *Sx {
	max := Pick(r, []int{0, 1, 1, 2, 3, 5, 65535})
	pool := []string{}
	for k := 0; k < r.Range(1, 8); k++ {
		pool = append(pool, genTopic(r))
	}
	ts := []*Sx{}
	for k := 0; k < r.Range(1, 30); k++ {
		ts = append(ts, S(Pick(r, pool)))
	}
	return L(K("max", I(max)), K("topics", ts...))
}

func unackRun(in *Sx) *Sx {
	st := umem.New(umem.Options{ClientID: "c"})
	outs := []*Sx{}
	for _, o := range in.Field("ops") {
		switch o.List[0].Atom {
		case "init":
			st.Init(o.List[1].Bool())
			outs = append(outs, A("none"))
		case "set":
			b, _ := st.Set(packets.PacketID(o.List[1].Int()))
			outs = append(outs, Bool(b))
		case "remove":
			st.Remove(packets.PacketID(o.List[1].Int()))
			outs = append(outs, A("none"))
		}
	}
	return L(K("outs", outs...))
}

func unackGen(r *Rng, i int) *Sx {
	ops := []*Sx{}
	for k := 0; k < r.Range(1, 30); k++ {
		id := Pick(r, []int{1, 2, 3, 65535, r.Range(1, 6)})
		switch x := r.Intn(10); {
		case x < 5:
			ops = append(ops, L(A("set"), I(id)))
		case x < 9:
			ops = append(ops, L(A("remove"), I(id)))
		default:
			ops = append(ops, L(A("init"), Bool(r.Bool())))
		}
	}
	return L(K("ops", ops...))
}

func init() {
	register(&Suite{Name: "lim", Gen: limGen, Run: limRun})
	register(&Suite{Name: "alias", Gen: aliasGen, Run: aliasRun})
	register(&Suite{Name: "unack", Gen: unackGen, Run: unackRun})
}
