package main

// Suite w_c14: scenario family for property C14 (hook decisions are enforced; each hook fires
// exactly once per event).  Oracle: ocaml/o_c14.ml.
//
// THE FAMILY
//   * hooks: an OnBasicAuth table (user/password -> accept or a CONNACK reason code, plus a default
//     verdict that is a rejection in 1 of 6 scenarios), OnSubscribe rules per (client id, full
//     filter incl. $share/..): reject with a v5 reason code / grant another QoS (lower or higher
//     than requested) / accept, now and then "reject everything"; OnMsgArrived rules per topic
//     name: reject with a reason code (>= 0x80, or 0x10) / drop / rewrite topic+payload+QoS /
//     accept; OnWillPublish rules per client id: drop / rewrite / accept.  (record 1) in 5 of 6
//     scenarios (then every hook kind is installed and the call log is in every (inspect)); in the
//     others only the hook kinds that have rules exist.
//   * 1-3 OBSERVER connections (labels 1..3, client ids o1..o3, MQTT 3.1 / 3.1.1 / 5, good
//     credentials) connect first and stay for the whole scenario.  They SUBSCRIBE (all option bits,
//     subscription identifiers, wildcards, share groups for v5, never the same filter twice in a
//     packet), UNSUBSCRIBE and PUBLISH.  They never acknowledge anything (far below every window).
//   * ACTOR connections (labels 4..7, client ids c1..c3, every protocol version, clean flag, v5
//     Session Expiry absent / 0 / 100, will with QoS 0-2 / retain / v5 properties in 3 of 5
//     CONNECTs, never a will delay) CONNECT with credentials that the table accepts or rejects
//     (reason codes of both protocol generations; v5 also through an Authentication Method, which
//     the enhanced-auth hook refuses), also under the client id of a live connection (accepted:
//     take-over; rejected: the live connection must not notice).  On a REJECTED connection the
//     script goes on to send a retained PUBLISH or a SUBSCRIBE, then closes.  An accepted actor
//     PUBLISHes (QoS 0-2, retain, unique payloads, empty payload = clear, v5 properties; a QoS 2
//     PUBLISH is followed by its PUBREL, sometimes after a literal retransmission) and ends by
//     close (will due), DISCONNECT + close (v5 0x04: will due), or take-over (will due).
//   * (inspect) at random points and at the end: subscriptions, retained store, sessions, on-line /
//     off-line lists, pending wills and the hook call log.
//   * both delivery modes, queue_qos0 on/off, message_expiry 7200 / 0.  No (advance), no (sleep).
//
// DELIBERATELY EXCLUDED (the expectation would not follow from the statement alone): message
// expiry properties, topic aliases, $-topics, subscribers that go off-line (queues), actors that
// subscribe, broker limits (windows, packet sizes, maximum QoS), will delays and session expiry in
// time, AUTH packets / re-authentication, api_publish and TerminateSession (no hook decides
// there), hook reason codes below 0x80 for SUBSCRIBE and (v5) CONNECT, the same filter twice in one
// SUBSCRIBE, a take-over with clean=0 of a session whose expiry is 0, malformed packets, keepalive.

import "fmt"

type c14Sock struct {
	label   int
	ver     int
	cid     string
	open    bool
	live    bool // CONNECT accepted
	rej     bool // CONNECT rejected, socket still open
	nextPid int
	freed   []int // ids of v5 QoS 2 publishes that the hook rejected (free again)
	e       int // session expiry of the connection (0: ends with it)
	subs    map[string]bool
}

var c14Topics = []string{"a", "a", "b", "a/b", "c", "c/d"}
var c14Filters = []string{"a", "b", "a/b", "c", "#", "+", "a/#", "a/+", "+/b", "c/#", "c/d", "+/+"}
var c14Shared = []string{"$share/g/a", "$share/g/#", "$share/h/a", "$share/g/+", "$share/g/c/#"}
var c14V5Codes = []int{0x80, 0x83, 0x84, 0x85, 0x86, 0x87, 0x88, 0x89, 0x8a, 0x8c, 0x90, 0x97, 0x9c, 0x9f}
var c14SubCodes = []int{0x80, 0x83, 0x87, 0x8f, 0x91, 0x97, 0x9e, 0xa1, 0xa2}
var c14PubCodes = []int{0x80, 0x80, 0x80, 0x83, 0x87, 0x90, 0x91, 0x97, 0x99, 0x10}

func c14Gen(r *Rng, i int) *Sx {
	cfg := K("cfg",
		K("delivery", A(Pick(r, []string{"onlyonce", "overlap"}))),
		K("max_inflight", I(100)), K("max_queued", I(1000)),
		K("queue_qos0", Bool(!r.Chance(1, 4))),
		K("session_expiry", I(7200)),
		K("message_expiry", I(Pick(r, []int{7200, 7200, 0}))),
		K("recv_max", I(100)), K("alias_max", I(10)),
		K("max_packet", I(268435456)), K("max_qos", I(2)),
		K("retain_avail", Bool(true)), K("wildcard", Bool(true)), K("subid", Bool(true)), K("shared", Bool(true)),
		K("max_keepalive", I(300)), K("allow_zero_len", Bool(true)), K("inflight_expiry", I(30)))

	// ---- hooks
	type cred struct {
		user, pass string
		has        bool // user name / password present in CONNECT
		code       int
	}
	dflt := 0
	if r.Chance(1, 6) {
		dflt = Pick(r, c14V5Codes)
	}
	creds := []cred{
		{"u", "p", true, 0},
		{"adm", "s3", true, 0},
		{"bad", "p", true, Pick(r, c14V5Codes)},
		{"u", "bad", true, Pick(r, c14V5Codes)},
		{"old", "p", true, r.Range(1, 5)}, // a 3.x return code: used by 3.x clients only
		{"x", "y", true, dflt},            // not in the table
		{"", "", false, dflt},             // no credentials at all
	}
	authRules := []*Sx{}
	for _, c := range creds[:5] {
		authRules = append(authRules, L(S(c.user), S(c.pass), I(c.code)))
	}
	authRules = append(authRules, K("default", I(dflt)))

	nobs := r.Range(1, 3)
	subRules := []*Sx{}
	for k := 1; k <= nobs; k++ {
		cid := fmt.Sprintf("o%d", k)
		pool := append(append([]string{}, c14Filters...), c14Shared...)
		for _, f := range pool {
			if !r.Chance(1, 4) {
				continue
			}
			var act *Sx
			switch r.Intn(7) {
			case 0, 1, 2:
				act = L(A("reject"), I(Pick(r, c14SubCodes)))
			case 3, 4, 5:
				act = L(A("qos"), I(r.Intn(3)))
			default:
				act = L(A("accept"))
			}
			subRules = append(subRules, L(S(cid), S(f), act))
		}
	}
	if r.Chance(1, 14) {
		subRules = append(subRules, L(A("all"), L(A("reject"), I(Pick(r, c14SubCodes)))))
	}
	rejTopics := map[string]bool{} // topics whose PUBLISH the OnMsgArrived hook rejects with a failure code
	msgRules := []*Sx{}
	for _, t := range []string{"a", "b", "a/b", "c", "c/d"} {
		if !r.Chance(1, 2) {
			continue
		}
		var act *Sx
		switch r.Intn(10) {
		case 0, 1, 2:
			act = L(A("reject"), I(Pick(r, c14PubCodes)))
		case 3, 4:
			act = L(A("drop"))
		case 5, 6, 7, 8:
			p := "R" + t
			if r.Chance(1, 8) {
				p = "" // rewritten to an empty payload
			}
			q := r.Intn(3)
			if r.Chance(1, 3) {
				q += 4 * r.Range(1, 2) // the hook also clears (4..6) or sets (8..10) the RETAIN flag
			}
			act = L(A("rewrite"), S(Pick(r, c14Topics)), S(p), I(q))
		default:
			act = L(A("accept"))
		}
		msgRules = append(msgRules, L(S(t), act))
		if act.List[0].Atom == "reject" && act.List[1].Int() >= 0x80 {
			rejTopics[t] = true
		}
	}
	willRules := []*Sx{}
	for _, c := range []string{"c1", "c2", "c3"} {
		if !r.Chance(1, 2) {
			continue
		}
		var act *Sx
		switch r.Intn(5) {
		case 0, 1:
			act = L(A("drop"))
		case 2, 3:
			q := r.Intn(3)
			if r.Chance(1, 3) {
				q += 4 * r.Range(1, 2)
			}
			act = L(A("rewrite"), S(Pick(r, c14Topics)), S("W"+c), I(q))
		default:
			act = L(A("accept"))
		}
		willRules = append(willRules, L(S(c), act))
	}
	record := !r.Chance(1, 6)
	hk := []*Sx{K("basic_auth", authRules...)}
	if record || len(subRules) > 0 {
		hk = append(hk, K("subscribe", subRules...))
	}
	if record || len(msgRules) > 0 {
		hk = append(hk, K("msg_arrived", msgRules...))
	}
	if record || len(willRules) > 0 {
		hk = append(hk, K("will_publish", willRules...))
	}
	hk = append(hk, K("record", Bool(record)))
	hooks := K("hooks", hk...)

	steps := []*Sx{}
	add := func(x *Sx) { steps = append(steps, x) }
	nmsg, nwill := 0, 0

	pubProps := func(ver int) []*Sx {
		ps := []*Sx{}
		if ver != 5 {
			return ps
		}
		if r.Chance(1, 6) {
			ps = append(ps, K("pfmt", I(1)))
		}
		if r.Chance(1, 6) {
			ps = append(ps, K("ctype", S(Pick(r, []string{"t", "text/plain"}))))
		}
		if r.Chance(1, 6) {
			ps = append(ps, K("resp", S(Pick(r, []string{"r", "a/b"}))))
		}
		if r.Chance(1, 6) {
			ps = append(ps, K("corr", S(Pick(r, []string{"c", "corr"}))))
		}
		for r.Chance(1, 6) {
			ps = append(ps, K("user", S(Pick(r, []string{"k", "key"})), S(Pick(r, []string{"v", "", "w"}))))
		}
		return ps
	}

	// ---- observers
	obs := []*c14Sock{}
	goodCred := func() cred {
		if dflt == 0 && r.Chance(1, 3) {
			return creds[6]
		}
		return creds[r.Intn(2)]
	}
	credItems := func(c cred) []*Sx {
		if !c.has {
			return nil
		}
		return []*Sx{K("user", S(c.user)), K("pass", S(c.pass))}
	}
	subscribe := func(s *c14Sock) {
		items := []*Sx{A("subscribe"), I(s.nextPid)}
		s.nextPid++
		props := []*Sx{}
		if s.ver == 5 && r.Chance(1, 3) {
			props = append(props, K("subid", I(r.Range(1, 3))))
		}
		items = append(items, K("props", props...))
		seen := map[string]bool{}
		for k := 0; k < Pick(r, []int{1, 1, 2, 3}); k++ {
			f := Pick(r, c14Filters)
			if s.ver == 5 && r.Chance(1, 5) {
				f = Pick(r, c14Shared)
			}
			if seen[f] {
				continue
			}
			seen[f] = true
			nl, rap, rh := false, false, 0
			if s.ver == 5 {
				nl, rap, rh = r.Chance(1, 4), r.Chance(1, 2), Pick(r, []int{0, 0, 1, 2})
				if len(f) > 7 && f[:7] == "$share/" {
					nl = false
				}
			}
			items = append(items, L(A("t"), S(f), I(Pick(r, []int{0, 1, 2, 2})), Bool(nl), Bool(rap), I(rh)))
			s.subs[f] = true
		}
		add(L(A("send"), I(s.label), L(items...)))
	}
	for k := 1; k <= nobs; k++ {
		s := &c14Sock{label: k, cid: fmt.Sprintf("o%d", k), ver: Pick(r, []int{3, 4, 5, 5, 5}), nextPid: 1, open: true, live: true, subs: map[string]bool{}}
		obs = append(obs, s)
		items := []*Sx{A("connect"), I(s.label), I(s.ver), K("cid", S(s.cid)), K("clean", Bool(r.Bool())), K("keepalive", I(0))}
		items = append(items, credItems(goodCred())...)
		props := []*Sx{}
		if s.ver == 5 && r.Chance(1, 3) {
			props = append(props, K("sei", I(Pick(r, []int{0, 100}))))
		}
		items = append(items, K("props", props...))
		add(L(items...))
		for j := 0; j < r.Range(0, 2); j++ {
			subscribe(s)
		}
	}
	if r.Chance(3, 4) {
		subscribe(obs[0])
	}

	// ---- actors
	actors := []*c14Sock{}
	for k := 4; k <= 7; k++ {
		actors = append(actors, &c14Sock{label: k})
	}
	liveCid := func(cid string) *c14Sock {
		for _, s := range actors {
			if s.live && s.cid == cid {
				return s
			}
		}
		return nil
	}
	connect := func(s *c14Sock) {
		if s.open {
			add(L(A("close"), I(s.label)))
			s.open, s.live, s.rej = false, false, false
		}
		s.ver = Pick(r, []int{3, 4, 4, 5, 5, 5, 5})
		s.cid = Pick(r, []string{"c1", "c2", "c3"})
		// verdict first
		var c cred
		enhanced := false
		switch x := r.Intn(100); {
		case x < 55:
			c = goodCred()
		case x < 62 && s.ver == 5:
			enhanced = true
			c = goodCred()
		default:
			cand := []cred{creds[2], creds[3], creds[5]}
			if s.ver != 5 { // mostly a 3.x return code for a 3.x client
				cand = append(cand, creds[4], creds[4], creds[4], creds[4], creds[4], creds[4], creds[4], creds[4], creds[4])
			}
			c = Pick(r, cand)
		}
		accepted := c.code == 0 && !enhanced
		if !accepted && r.Chance(1, 4) {
			// a rejected CONNECT under the client id of somebody who is on-line
			var cand []string
			for _, o := range obs {
				cand = append(cand, o.cid)
			}
			for _, a := range actors {
				if a.live {
					cand = append(cand, a.cid)
				}
			}
			s.cid = Pick(r, cand)
		}
		clean := r.Bool()
		old := liveCid(s.cid)
		if accepted && old != nil {
			if !r.Chance(1, 3) { // take-overs are the exception
				for _, c := range []string{"c1", "c2", "c3"} {
					if liveCid(c) == nil {
						s.cid = c
						old = nil
					}
				}
			}
			if old != nil && old.e == 0 {
				clean = true
			}
		}
		sei := -1
		if s.ver == 5 {
			sei = Pick(r, []int{-1, 0, 100})
		}
		items := []*Sx{A("connect"), I(s.label), I(s.ver), K("cid", S(s.cid)), K("clean", Bool(clean)), K("keepalive", I(0))}
		items = append(items, credItems(c)...)
		if r.Chance(3, 5) {
			nwill++
			wp := pubProps(s.ver)
			if s.ver == 5 && r.Chance(1, 5) {
				wp = append(wp, K("willdelay", I(0)))
			}
			items = append(items, K("will", K("topic", S(Pick(r, c14Topics))), K("payload", S(fmt.Sprintf("w%d", nwill))), K("qos", I(r.Intn(3))),
				K("retain", Bool(r.Chance(1, 3))), K("props", wp...)))
		}
		props := []*Sx{}
		if sei >= 0 {
			props = append(props, K("sei", I(sei)))
		}
		if enhanced {
			props = append(props, K("authmethod", S(Pick(r, []string{"m", "SCRAM", ""}))))
			if r.Bool() {
				props = append(props, K("authdata", S("d")))
			}
		}
		items = append(items, K("props", props...))
		add(L(items...))
		s.open, s.nextPid = true, 1
		if accepted {
			if old != nil {
				old.live = false
			}
			s.live = true
			s.e = 0
			if s.ver == 5 {
				if sei > 0 {
					s.e = sei
				}
			} else if !clean {
				s.e = 7200
			}
		} else {
			s.rej = true
		}
	}
	publish := func(s *c14Sock, retainOften bool) {
		qos := r.Intn(3)
		pid := 0
		if qos > 0 {
			pid = s.nextPid
			s.nextPid++
		}
		// a v5 QoS 2 PUBLISH that the hook rejected with a failure code has ended with its PUBREC: the packet id is free
		// again and a new message may use it at once
		if qos == 2 && len(s.freed) > 0 && r.Chance(1, 2) {
			pid = s.freed[0]
			s.freed = s.freed[1:]
		}
		nmsg++
		payload := fmt.Sprintf("m%d", nmsg)
		retain := r.Chance(1, 3) || (retainOften && r.Bool())
		if retain && r.Chance(1, 8) {
			payload = ""
		}
		topic := Pick(r, c14Topics)
		if qos == 2 && s.ver == 5 && s.live && rejTopics[topic] {
			s.freed = append(s.freed, pid)
		}
		p := L(A("publish"), Bool(false), I(qos), Bool(retain), S(topic), S(payload), I(pid), K("props", pubProps(s.ver)...))
		add(L(A("send"), I(s.label), p))
		if qos == 2 && s.live {
			if r.Chance(1, 4) { // literal retransmission before PUBREL
				d := L(append([]*Sx{}, p.List...)...)
				d.List[1] = Bool(true)
				add(L(A("send"), I(s.label), d))
			}
			if !r.Chance(1, 10) {
				add(L(A("send"), I(s.label), L(A("pubrel"), I(pid), I(0), K("props"))))
			}
		}
	}

	connect(actors[0])
	n := r.Range(6, 26)
	for k := 0; k < n; k++ {
		x := r.Intn(100)
		switch {
		case x < 18:
			var free []*c14Sock
			for _, s := range actors {
				if !s.live {
					free = append(free, s)
				}
			}
			if len(free) > 0 {
				connect(Pick(r, free))
			}
		case x < 48:
			var cand []*c14Sock
			for _, s := range actors {
				if s.live {
					cand = append(cand, s, s)
				}
			}
			cand = append(cand, obs...)
			publish(Pick(r, cand), false)
		case x < 62:
			subscribe(Pick(r, obs))
		case x < 67:
			s := Pick(r, obs)
			items := []*Sx{A("unsubscribe"), I(s.nextPid), K("props")}
			s.nextPid++
			seen := map[string]bool{}
			for j := 0; j < Pick(r, []int{1, 1, 2}); j++ {
				f := Pick(r, append(append([]string{}, c14Filters...), c14Shared...))
				if r.Chance(2, 3) && len(s.subs) > 0 {
					// prefer something that was subscribed (map order must not decide: pick by sorted pool)
					for _, g := range append(append([]string{}, c14Filters...), c14Shared...) {
						if s.subs[g] && r.Chance(1, 2) {
							f = g
							break
						}
					}
				}
				if seen[f] {
					continue
				}
				seen[f] = true
				items = append(items, S(f))
				delete(s.subs, f)
			}
			add(L(A("send"), I(s.label), L(items...)))
		case x < 85:
			var cand []*c14Sock
			for _, s := range actors {
				if s.open {
					cand = append(cand, s)
				}
			}
			if len(cand) == 0 {
				continue
			}
			s := Pick(r, cand)
			switch {
			case s.rej:
				// what a refused client may still try
				switch r.Intn(3) {
				case 0:
					publish(s, true)
				case 1:
					subscribe(&c14Sock{label: s.label, ver: s.ver, nextPid: 1, subs: map[string]bool{}})
				}
				if r.Chance(2, 3) {
					add(L(A("close"), I(s.label)))
					s.open, s.rej = false, false
				}
			case s.live:
				if r.Chance(1, 3) {
					code := 0
					if s.ver == 5 {
						code = Pick(r, []int{0, 4, 4})
					}
					add(L(A("send"), I(s.label), L(A("disconnect"), I(code), K("props"))))
				}
				add(L(A("close"), I(s.label)))
				s.open, s.live = false, false
			default: // taken over: the script's socket is still to be closed
				add(L(A("close"), I(s.label)))
				s.open = false
			}
		case x < 93:
			add(L(A("inspect")))
		default:
			var cand []*c14Sock
			for _, s := range actors {
				if s.live {
					cand = append(cand, s)
				}
			}
			cand = append(cand, obs...)
			add(L(A("send"), I(Pick(r, cand).label), L(A("pingreq"))))
		}
	}
	// let the wills and the refused connections end, then look at everything
	for _, s := range actors {
		if s.open && (s.rej || r.Chance(1, 2)) {
			add(L(A("close"), I(s.label)))
			s.open, s.live, s.rej = false, false, false
		}
	}
	if r.Chance(1, 2) {
		subscribe(Pick(r, obs))
	}
	add(L(A("inspect")))
	return L(cfg, hooks, K("steps", steps...))
}

func init() { register(&Suite{Name: "w_c14", Gen: c14Gen, Run: wireRun, Par: 1}) }
