package main

// Suite w_c13 - property C13 "limits negotiated at CONNECT hold in both directions for every valid
// config".
//
// FAMILY. Publishers (client ids p1, p2; MQTT 5 mostly, 3.1.1 / 3.1 now and then; always clean start)
// and subscribers (client ids s1, s2; MQTT 5 mostly) are disjoint. The configuration is drawn from
// validator-accepted combinations of server_receive_maximum {1,2,3,5,100,65535}, topic_alias_maximum
// {0,1,2,3,10,65535}, max_packet_size {40 .. 2^32-1, with 129..132 and 16386/16387 for the remaining
// length boundaries; 2, 8, 15, 25 now and then}, max_inflight {1,2,3,10,100,1000,65535} (max_queued >=
// max_inflight, equal to it for 1000 and 65535), both delivery
// modes, queue_qos0 on/off. A v5 subscriber declares Maximum Packet Size (20 .. 16388 or absent), Topic
// Alias Maximum (0,1,2,3,10,65535 or absent) and Receive Maximum (1,2,5,65535 or absent) in CONNECT,
// owns a persistent session and one or two subscriptions with DISJOINT filters (QoS 0..2, random option
// bits, sometimes a subscription identifier). Publishers send PUBLISH packets (retain 0, QoS 0..2,
// unique payload "m<k>." padded with 'z') whose size is aimed at the limits:
//   - the packet a given subscriber would get is Maximum Packet Size -3 .. +4 bytes (outbound clause),
//   - the packet the publisher sends is max_packet_size -1 .. +2 bytes (inbound 0x95 clause), also
//     with an UNSUBSCRIBE of a long filter,
//   - Topic Alias 0, 1, max, max+1, 65535, bind / use / rebind / use-unbound sequences (0x94 clause),
//   - QoS 2 publishes left without PUBREL until the Receive Maximum is reached and then one more
//     (0x93 clause); QoS 1 publishes in between; PUBREL later frees a slot.
// Subscribers acknowledge late or out of order, go away (close) and come back with clean 0 and OTHER
// declared maxima / protocol version, so that queued and in-flight messages meet new limits and a new
// (empty) alias table. Several topics rotate through a small client Topic Alias Maximum so that
// outbound aliases are evicted and re-bound. A publisher the broker is expected to have thrown out
// is not used again until it reconnects. The scenario ends with one small publish per subscriber (the
// connection that saw drops must still work) and (inspect).
//
// The generator keeps its own picture of sessions only to choose sensible acknowledgements and
// sizes; the oracle does not trust it.
//
// DELIBERATELY EXCLUDED: retained messages, wills, shared subscriptions, overlapping subscriptions of
// one client, a client that both publishes and subscribes, take-overs, client DISCONNECT packets,
// session / message expiry (no advance steps at all; Message Expiry Interval >= 1000 s only as a
// property that takes room), queue overflow, hooks, malformed packets, keep-alive, properties whose
// forwarding is optional (Payload Format Indicator 0, empty strings, expiry 0), a subscriber that
// closes while it owes a PUBCOMP, Maximum Packet Size 0 (a protocol error), publisher session
// resumption (inbound QoS 2 state across connections). Now and then an open QoS 2 PUBLISH is sent once
// more with DUP on the same connection (it opens nothing new).

import (
	"strconv"
	"strings"
)

type c13Msg struct {
	topic   string
	payload []byte
	qos     int
	props   []*Sx // properties a v5 subscriber gets
}

type c13Entry struct {
	qos int
	rel bool
}

type c13Pend struct {
	m     *c13Msg
	eq    int
	subid int
}

type c13Filt struct {
	filter string
	qos    int
	subid  int
}

type c13Sub struct {
	label, ver               int
	cid                      string
	maxpkt, aliasmax, recvmx int
	open, ever, sockUsed     bool
	filters                  []c13Filt
	nextPid                  int
	pend                     []c13Pend
	out, rx, rel             []*c13Entry
}

type c13Pub struct {
	label, ver int
	cid        string
	open       bool
	sockUsed   bool
	nextPid    int
	alias      map[int]string
	q2         []int // QoS 2 packet ids without PUBREL
	q2pk       map[int]*Sx
}

var c13Topics = []string{"a", "b", "a/b", "t/long/name"}

// pairs of filters that never match the same topic
var c13FilterSets = [][]string{{"a"}, {"b"}, {"#"}, {"+"}, {"a/#"}, {"a/+"}, {"t/#"}, {"+/+"}, {"t/long/name"}, {"#"}, {"#"},
	{"a", "b"}, {"a", "a/b"}, {"b", "a/+"}, {"t/#", "a"}, {"a/b", "t/long/name"}, {"+", "t/#"}}

func c13Split(s string) []string {
	var out []string
	cur := ""
	for i := 0; i < len(s); i++ {
		if s[i] == '/' {
			out = append(out, cur)
			cur = ""
		} else {
			cur += string(s[i])
		}
	}
	return append(out, cur)
}

func c13Match(filter, topic string) bool {
	f, t := c13Split(filter), c13Split(topic)
	for i, lv := range f {
		if lv == "#" {
			return true
		}
		if i >= len(t) {
			return false
		}
		if lv != "+" && lv != t[i] {
			return false
		}
	}
	return len(f) == len(t)
}

// size of the PUBLISH a subscriber of version ver gets for m (no topic alias)
func c13PlainSize(m *c13Msg, eq, ver, subid int) int {
	props := []*Sx{}
	if ver == 5 {
		props = append(props, m.props...)
		if subid > 0 {
			props = append(props, K("subid", I(subid)))
		}
	}
	pid := 0
	if eq > 0 {
		pid = 1
	}
	return len(wireEncode(ver, L(A("publish"), Bool(false), I(eq), Bool(false), S(m.topic), B(m.payload), I(pid), K("props", props...))))
}

func c13Gen(r *Rng, i int) *Sx {
	maxInflight := Pick(r, []int{1, 1, 2, 3, 10, 100, 100, 1000, 65535})
	maxQueued := 1000
	if maxInflight > maxQueued {
		maxQueued = Pick(r, []int{65535, 100000})
	}
	recvMax := Pick(r, []int{1, 1, 2, 2, 3, 5, 100, 65535})
	aliasMax := Pick(r, []int{0, 1, 1, 2, 2, 3, 10, 65535})
	maxPacket := Pick(r, []int{40, 64, 100, 129, 130, 131, 132, 200, 1000, 16386, 16387, 268435456, 268435456, 4294967295})
	if r.Chance(1, 15) {
		// tiny but valid: a v5 client can hardly send anything (its SUBSCRIBE may already be too large)
		maxPacket = Pick(r, []int{2, 8, 15, 25})
	}
	queueQos0 := !r.Chance(1, 4)
	cfg := K("cfg",
		K("delivery", A(Pick(r, []string{"onlyonce", "overlap"}))),
		K("max_inflight", I(maxInflight)), K("max_queued", I(maxQueued)),
		K("queue_qos0", Bool(queueQos0)),
		K("session_expiry", I(100000000)),
		K("message_expiry", I(Pick(r, []int{0, 7200}))),
		K("recv_max", I(recvMax)), K("alias_max", I(aliasMax)),
		K("max_packet", I(maxPacket)), K("max_qos", I(2)),
		K("retain_avail", Bool(true)), K("wildcard", Bool(true)), K("subid", Bool(true)), K("shared", Bool(true)),
		K("max_keepalive", I(300)), K("allow_zero_len", Bool(true)), K("inflight_expiry", I(30)))

	var steps []*Sx
	add := func(x *Sx) { steps = append(steps, x) }
	var pubs []*c13Pub
	var subs []*c13Sub
	label := 0
	npub := r.Range(1, 2)
	for k := 1; k <= npub; k++ {
		label++
		pubs = append(pubs, &c13Pub{label: label, ver: Pick(r, []int{5, 5, 5, 5, 5, 4, 3}), cid: "p" + strconv.Itoa(k)})
	}
	for k := 1; k <= r.Range(1, 2); k++ {
		label++
		s := &c13Sub{label: label, ver: Pick(r, []int{5, 5, 5, 5, 5, 5, 4, 3}), cid: "s" + strconv.Itoa(k)}
		for _, f := range Pick(r, c13FilterSets) {
			q := Pick(r, []int{0, 1, 1, 2, 2})
			if !queueQos0 && q == 0 {
				q = Pick(r, []int{1, 2})
			}
			s.filters = append(s.filters, c13Filt{filter: f, qos: q})
		}
		subs = append(subs, s)
	}
	window := func(s *c13Sub) int {
		w := maxInflight
		if s.ver == 5 && s.recvmx > 0 && s.recvmx < w {
			w = s.recvmx
		}
		return w
	}
	drain := func(s *c13Sub) {
		for s.open && len(s.out) < window(s) && len(s.pend) > 0 {
			p := s.pend[0]
			s.pend = s.pend[1:]
			if s.ver == 5 && s.maxpkt > 0 && c13PlainSize(p.m, p.eq, s.ver, p.subid) > s.maxpkt {
				continue
			}
			if p.eq > 0 {
				e := &c13Entry{qos: p.eq}
				s.out = append(s.out, e)
				s.rx = append(s.rx, e)
			}
		}
	}
	connectPub := func(p *c13Pub) {
		if p.sockUsed {
			add(L(A("close"), I(p.label)))
		}
		add(L(A("connect"), I(p.label), I(p.ver), K("cid", S(p.cid)), K("clean", Bool(true)), K("keepalive", I(0)), K("props")))
		p.open, p.sockUsed, p.nextPid, p.alias, p.q2, p.q2pk = true, true, 1, map[int]string{}, nil, map[int]*Sx{}
	}
	connectSub := func(s *c13Sub) {
		clean := false
		props := []*Sx{}
		s.maxpkt, s.aliasmax, s.recvmx = 0, 0, 0
		if s.ver == 5 {
			clean = !s.ever && r.Bool()
			props = append(props, K("sei", U(Pick(r, []uint64{100000000, 4294967295}))))
			if r.Chance(3, 4) {
				// CONNACK is 34 bytes in this configuration: smaller maxima only now and then
				s.maxpkt = Pick(r, []int{34, 35, 40, 40, 64, 100, 129, 130, 131, 200, 16386, 16387})
				if r.Chance(1, 30) {
					s.maxpkt = Pick(r, []int{20, 30, 33, 16388})
				}
				props = append(props, K("maxpkt", I(s.maxpkt)))
			}
			if r.Chance(3, 4) {
				s.aliasmax = Pick(r, []int{0, 1, 1, 2, 2, 3, 10, 65535})
				if s.maxpkt > 0 && r.Chance(1, 2) {
					s.aliasmax = 0 // keep the size clauses apart from the alias clauses in half of the cases
				}
				props = append(props, K("aliasmax", I(s.aliasmax)))
			}
			if r.Chance(1, 3) {
				s.recvmx = Pick(r, []int{1, 2, 5, 65535})
				props = append(props, K("recvmax", I(s.recvmx)))
			}
		}
		if s.sockUsed {
			add(L(A("close"), I(s.label))) // thrown out by the broker earlier
		}
		add(L(A("connect"), I(s.label), I(s.ver), K("cid", S(s.cid)), K("clean", Bool(clean)), K("keepalive", I(0)), K("props", props...)))
		s.open, s.ever, s.nextPid, s.sockUsed = true, true, 1, true
		s.rx = append([]*c13Entry{}, s.out...)
		s.rel = nil
		drain(s)
	}
	subscribe := func(s *c13Sub) {
		for k := range s.filters {
			f := &s.filters[k]
			props := []*Sx{}
			nl, rap, rh := false, false, 0
			if s.ver == 5 {
				nl, rap, rh = r.Chance(1, 4), r.Chance(1, 3), r.Intn(3)
				if r.Chance(1, 3) {
					f.subid = Pick(r, []int{1, 2, 127, 128, 16384, 268435455})
					props = append(props, K("subid", I(f.subid)))
				}
			}
			pk := L(A("subscribe"), I(s.nextPid), K("props", props...), L(A("t"), S(f.filter), I(f.qos), Bool(nl), Bool(rap), I(rh)))
			add(L(A("send"), I(s.label), pk))
			s.nextPid++
			if s.ver == 5 && len(wireEncode(5, pk)) > maxPacket {
				// thrown out with 0x95: this connection is gone, nothing was subscribed
				s.open = false
				s.filters = s.filters[:k]
				return
			}
		}
	}
	ack := func(s *c13Sub, e *c13Entry) {
		idx := func(l []*c13Entry) int {
			for k, x := range l {
				if x == e {
					return k
				}
			}
			return -1
		}
		remove := func() {
			k := idx(s.out)
			s.out = append(s.out[:k:k], s.out[k+1:]...)
		}
		switch {
		case e.qos == 1:
			add(L(A("send"), I(s.label), L(A("puback"), wireRx(idx(s.rx)), I(0), K("props"))))
			remove()
		case !e.rel:
			add(L(A("send"), I(s.label), L(A("pubrec"), wireRx(idx(s.rx)), I(0), K("props"))))
			e.rel = true
			s.rel = append(s.rel, e)
		default:
			add(L(A("send"), I(s.label), L(A("pubcomp"), wireRxRel(idx(s.rel)), I(0), K("props"))))
			remove()
		}
		drain(s)
	}
	closeSub := func(s *c13Sub) {
		for _, e := range append([]*c13Entry{}, s.out...) {
			if e.rel {
				ack(s, e)
			}
		}
		add(L(A("close"), I(s.label)))
		s.open, s.sockUsed = false, false
	}
	usable := func(p *c13Pub) *c13Pub {
		if !p.open {
			if r.Chance(1, 4) {
				p.ver = Pick(r, []int{5, 5, 5, 4, 3})
			}
			connectPub(p)
		}
		return p
	}
	pubCount := 0
	forceAlias := 0 // when > 0: the alias value of the next bind / use operation

	// one PUBLISH. what: 0 small, 1 aim at the Maximum Packet Size of subscriber tgt (delta), 2 aim at the
	// broker's max_packet_size (delta). aliasOp: 0 none, 1 bind, 2 use, 3 invalid alias value, 4 use of an unbound alias
	publish := func(p *c13Pub, topic string, qos int, what int, tgt *c13Sub, delta int, aliasOp int, relNow bool) {
		pubCount++
		prefix := []byte("m" + strconv.Itoa(pubCount) + ".")
		props := []*Sx{}
		if p.ver == 5 {
			if r.Chance(1, 6) {
				props = append(props, K("msgexpiry", I(Pick(r, []int{1000, 7300, 100000}))))
			}
			if r.Chance(1, 8) {
				props = append(props, K("pfmt", I(1)))
			}
			if r.Chance(1, 8) {
				props = append(props, K("ctype", S(Pick(r, []string{"t", "text/plain"}))))
			}
			if r.Chance(1, 8) {
				props = append(props, K("resp", S(Pick(r, []string{"r", "a/b"}))))
			}
			if r.Chance(1, 8) {
				props = append(props, K("corr", S(Pick(r, []string{"c", "corr"}))))
			}
			for r.Chance(1, 8) {
				props = append(props, K("user", S(Pick(r, []string{"k", "key"})), S(Pick(r, []string{"v", "", "w"}))))
			}
		}
		m := &c13Msg{topic: topic, qos: qos, props: props}
		// alias
		sendTopic := topic
		sendProps := props
		aliasBad := false
		if p.ver == 5 {
			switch aliasOp {
			case 1:
				if aliasMax >= 1 {
					a := Pick(r, []int{1, aliasMax, r.Range(1, min(aliasMax, 12))})
					if forceAlias > 0 {
						a = forceAlias
					}
					sendProps = append(append([]*Sx{}, props...), K("alias", I(a)))
					p.alias[a] = topic
				}
			case 2:
				var bound []int
				for a := 1; a <= min(aliasMax, 12); a++ {
					if p.alias[a] == topic {
						bound = append(bound, a)
					}
				}
				if p.alias[aliasMax] == topic && aliasMax > 12 {
					bound = append(bound, aliasMax)
				}
				if forceAlias > 0 && p.alias[forceAlias] == topic {
					bound = []int{forceAlias}
				}
				if len(bound) > 0 {
					sendProps = append(append([]*Sx{}, props...), K("alias", I(Pick(r, bound))))
					sendTopic = ""
				}
			case 3:
				cand := []int{0}
				if aliasMax < 65535 {
					cand = append(cand, aliasMax+1, aliasMax+1, 65535, r.Range(aliasMax+1, 65535))
				}
				sendProps = append(append([]*Sx{}, props...), K("alias", I(Pick(r, cand))))
				if r.Chance(1, 4) {
					sendTopic = ""
				}
				aliasBad = true
			case 4:
				var free []int
				for a := 1; a <= min(aliasMax, 12); a++ {
					if p.alias[a] == "" {
						free = append(free, a)
					}
				}
				if len(free) > 0 {
					sendProps = append(append([]*Sx{}, props...), K("alias", I(Pick(r, free))))
					sendTopic = ""
					aliasBad = true
				}
			}
		}
		pid := 0
		if qos > 0 {
			pid = p.nextPid
			p.nextPid++
		}
		mk := func(n int) *Sx {
			pl := append([]byte{}, prefix...)
			for len(pl) < n {
				pl = append(pl, 'z')
			}
			m.payload = pl
			return L(A("publish"), Bool(false), I(qos), Bool(false), S(sendTopic), B(pl), I(pid), K("props", sendProps...))
		}
		pkt := mk(0)
		size := func() int {
			switch what {
			case 1:
				var f *c13Filt
				for k := range tgt.filters {
					if c13Match(tgt.filters[k].filter, topic) {
						f = &tgt.filters[k]
					}
				}
				if f == nil {
					return -1
				}
				return c13PlainSize(m, min(qos, f.qos), tgt.ver, f.subid)
			case 2:
				return len(wireEncode(p.ver, pkt))
			}
			return -1
		}
		if what != 0 {
			limit := maxPacket
			if what == 1 {
				limit = tgt.maxpkt
			}
			want := limit + delta
			if base := size(); base >= 0 && want > base && want < 17500 {
				n := len(prefix) + (want - base)
				pkt = mk(n)
				// the remaining length field grows at 128 and 16384: step back until the size is not above the aim
				for size() > want && n > len(prefix) {
					n--
					pkt = mk(n)
				}
			}
		}
		add(L(A("send"), I(p.label), pkt))
		// what the broker makes of it
		viol := aliasBad
		if p.ver == 5 {
			if len(wireEncode(5, pkt)) > maxPacket {
				viol = true
			}
			if qos > 0 && len(p.q2) >= recvMax {
				viol = true
			}
		}
		if viol {
			p.open = false
			return
		}
		if qos == 2 {
			p.q2 = append(p.q2, pid)
			p.q2pk[pid] = pkt
		}
		for _, s := range subs {
			if !s.ever {
				continue
			}
			for _, f := range s.filters {
				if c13Match(f.filter, topic) {
					eq := min(qos, f.qos)
					if eq == 0 && !s.open && !queueQos0 {
						continue
					}
					s.pend = append(s.pend, c13Pend{m: m, eq: eq, subid: f.subid})
				}
			}
			drain(s)
		}
		if qos == 2 && relNow {
			add(L(A("send"), I(p.label), L(A("pubrel"), I(pid), I(0), K("props"))))
			p.q2 = p.q2[:len(p.q2)-1]
		}
	}
	topicFor := func(s *c13Sub) string {
		var l []string
		for _, t := range c13Topics {
			for _, f := range s.filters {
				if c13Match(f.filter, t) {
					l = append(l, t)
				}
			}
		}
		if len(l) == 0 {
			return Pick(r, c13Topics)
		}
		return Pick(r, l)
	}
	// a QoS that does not (normally) exceed the Receive Maximum on p
	safeQos := func(p *c13Pub) int {
		q := r.Intn(3)
		if p.ver == 5 && len(p.q2) >= recvMax && !r.Chance(1, 8) {
			if r.Bool() {
				q = 0
			} else {
				pid := p.q2[0]
				p.q2 = p.q2[1:]
				add(L(A("send"), I(p.label), L(A("pubrel"), I(pid), I(0), K("props"))))
			}
		}
		return q
	}
	aliasOp := func(p *c13Pub) int {
		if p.ver != 5 {
			return 0
		}
		return Pick(r, []int{0, 0, 0, 0, 0, 0, 1, 1, 1, 1, 2, 2, 2, 2, 3, 4})
	}
	// a publisher whose own packet may be large: v3/v4 have no inbound limit
	bigPub := func(size int) *c13Pub {
		var ok []*c13Pub
		for _, p := range pubs {
			if p.ver != 5 || size+8 <= maxPacket {
				ok = append(ok, p)
			}
		}
		if len(ok) == 0 {
			return Pick(r, pubs)
		}
		return Pick(r, ok)
	}

	// opening
	for _, s := range subs {
		connectSub(s)
		subscribe(s)
	}
	for _, p := range pubs {
		connectPub(p)
	}
	n := r.Range(8, 34)
	for len(steps) < n+6 {
		switch x := r.Intn(100); {
		case x < 22:
			// plain traffic with alias operations
			p := usable(Pick(r, pubs))
			q := safeQos(p)
			publish(p, Pick(r, c13Topics), q, 0, nil, 0, aliasOp(p), r.Chance(2, 3))
		case x < 42:
			// around a subscriber's Maximum Packet Size
			var l []*c13Sub
			for _, s := range subs {
				if s.ver == 5 && s.maxpkt > 0 && s.ever {
					l = append(l, s)
				}
			}
			if len(l) == 0 {
				break
			}
			s := Pick(r, l)
			for k := r.Range(1, 3); k > 0; k-- {
				p := usable(bigPub(s.maxpkt))
				q := safeQos(p)
				op := 0
				if r.Chance(1, 5) {
					op = aliasOp(p)
				}
				publish(p, topicFor(s), q, 1, s, Pick(r, []int{-3, -2, -1, -1, 0, 0, 0, 1, 1, 2, 3, 4}), op, r.Chance(2, 3))
			}
		case x < 52:
			// around the broker's max_packet_size
			if maxPacket > 17000 {
				break
			}
			var l []*c13Pub
			for _, p := range pubs {
				if p.ver == 5 {
					l = append(l, p)
				}
			}
			if len(l) == 0 {
				break
			}
			p := usable(Pick(r, l))
			if p.ver != 5 {
				break
			}
			if r.Chance(1, 4) {
				// a packet other than PUBLISH
				d := Pick(r, []int{-1, 0, 0, 1, 1, 2})
				f := "u/" + strings.Repeat("y", max(0, maxPacket+d-14))
				mkp := func() *Sx { return L(A("unsubscribe"), I(p.nextPid), K("props"), S(f)) }
				for len(wireEncode(5, mkp())) < maxPacket+d {
					f += "y"
				}
				for len(wireEncode(5, mkp())) > maxPacket+d && len(f) > 1 {
					f = f[:len(f)-1]
				}
				add(L(A("send"), I(p.label), mkp()))
				p.nextPid++
				if len(wireEncode(5, mkp())) > maxPacket {
					p.open = false
				}
				break
			}
			q := safeQos(p)
			publish(p, Pick(r, c13Topics), q, 2, nil, Pick(r, []int{-2, -1, 0, 0, 0, 1, 1, 2}), Pick(r, []int{0, 0, 0, aliasOp(p)}), r.Chance(2, 3))
		case x < 62:
			// Receive Maximum: QoS 2 publishes that stay open
			if recvMax > 5 && !r.Chance(1, 6) {
				break
			}
			var l []*c13Pub
			for _, p := range pubs {
				if p.ver == 5 {
					l = append(l, p)
				}
			}
			if len(l) == 0 {
				break
			}
			p := usable(Pick(r, l))
			if p.ver != 5 {
				break
			}
			k := r.Range(1, min(recvMax, 5)+1)
			for ; k > 0 && p.open; k-- {
				if len(p.q2) > 0 && r.Chance(1, 4) {
					// the same QoS 2 PUBLISH once more, DUP set (no new message, no new slot of the Receive Maximum)
					pid := Pick(r, p.q2)
					if o := p.q2pk[pid]; o != nil && len(o.List[7].List) == 1 || o != nil && !L(o.List[7].List[1:]...).Has("alias") {
						cp := &Sx{IsL: true, List: append([]*Sx{}, o.List...)}
						cp.List[1] = Bool(true)
						bindAlias := 0
						if aliasMax >= 1 && len(p.q2) < recvMax && r.Chance(1, 2) {
							// the retransmission introduces a topic alias for its topic: the binding counts although the
							// message is no new one, and the alias is used right away
							bindAlias = Pick(r, []int{1, aliasMax, r.Range(1, min(aliasMax, 12))})
							cp.List[7] = &Sx{IsL: true, List: append(append([]*Sx{}, o.List[7].List...), K("alias", I(bindAlias)))}
							p.alias[bindAlias] = o.List[4].Str()
						}
						add(L(A("send"), I(p.label), cp))
						if len(p.q2) >= recvMax {
							p.open = false // what the broker does today
						}
						if bindAlias > 0 && p.open {
							forceAlias = bindAlias
							publish(p, o.List[4].Str(), Pick(r, []int{0, 1}), 0, nil, 0, 2, true)
							forceAlias = 0
						}
						continue
					}
				}
				q := Pick(r, []int{2, 2, 2, 1})
				if len(p.q2) >= recvMax && r.Chance(1, 2) {
					if r.Bool() {
						j := r.Intn(len(p.q2))
						add(L(A("send"), I(p.label), L(A("pubrel"), I(p.q2[j]), I(0), K("props"))))
						p.q2 = append(p.q2[:j:j], p.q2[j+1:]...)
					} else {
						q = 0
					}
				}
				publish(p, Pick(r, c13Topics), q, 0, nil, 0, 0, false)
			}
		case x < 70:
			// alias sequences on one publisher: bind, use, rebind, use, now and then something invalid
			var l []*c13Pub
			for _, p := range pubs {
				if p.ver == 5 {
					l = append(l, p)
				}
			}
			if len(l) == 0 {
				break
			}
			p := usable(Pick(r, l))
			if p.ver != 5 {
				break
			}
			if aliasMax >= 1 && r.Chance(1, 2) {
				// bind a -> t1, use, re-bind a -> t2, use
				forceAlias = Pick(r, []int{1, aliasMax, r.Range(1, min(aliasMax, 12))})
				t1 := Pick(r, c13Topics)
				t2 := Pick(r, c13Topics)
				for _, t := range []string{t1, t1, t2, t2, t1} {
					if !p.open || (p.alias[forceAlias] == t && r.Chance(1, 3)) {
						break
					}
					op := 2
					if p.alias[forceAlias] != t {
						op = 1
					}
					publish(p, t, safeQos(p), 0, nil, 0, op, true)
				}
				forceAlias = 0
				break
			}
			for k := r.Range(2, 4); k > 0 && p.open; k-- {
				op := Pick(r, []int{1, 1, 2, 2, 2, 3, 4})
				if k > 1 && op >= 3 && r.Bool() {
					op = 2
				}
				publish(p, Pick(r, c13Topics[:3]), safeQos(p), 0, nil, 0, op, true)
			}
		case x < 84:
			s := Pick(r, subs)
			if s.open && len(s.out) > 0 {
				e := s.out[0]
				if r.Chance(1, 4) {
					e = Pick(r, s.out)
				}
				ack(s, e)
				if r.Chance(1, 2) && len(s.out) > 0 {
					ack(s, s.out[0])
				}
			}
		case x < 91:
			s := Pick(r, subs)
			if s.open {
				closeSub(s)
				for k := r.Range(0, 2); k > 0; k-- {
					p := usable(Pick(r, pubs))
					publish(p, topicFor(s), safeQos(p), 0, nil, 0, 0, true)
				}
				if r.Chance(1, 2) {
					if r.Chance(1, 4) {
						s.ver = Pick(r, []int{5, 5, 4, 3})
					}
					connectSub(s)
				}
			} else {
				if r.Chance(1, 4) {
					s.ver = Pick(r, []int{5, 5, 4, 3})
				}
				connectSub(s)
			}
		case x < 95:
			p := Pick(r, pubs)
			if len(p.q2) > 0 && p.open {
				add(L(A("send"), I(p.label), L(A("pubrel"), I(p.q2[0]), I(0), K("props"))))
				p.q2 = p.q2[1:]
			}
		case x < 97:
			p := Pick(r, pubs)
			if p.open {
				add(L(A("close"), I(p.label)))
				p.open, p.sockUsed = false, false
			}
		default:
			s := Pick(r, subs)
			if s.open {
				add(L(A("send"), I(s.label), L(A("pingreq"))))
			}
		}
	}
	// closing: everybody who subscribed is back and gets one small message
	for _, s := range subs {
		if !s.open {
			connectSub(s)
		}
		for s.open && len(s.out) >= window(s) && len(s.out) > 0 {
			ack(s, s.out[0])
		}
	}
	for _, s := range subs {
		p := usable(Pick(r, pubs))
		publish(p, topicFor(s), safeQos(p), 0, nil, 0, 0, true)
	}
	add(L(A("inspect")))
	return L(cfg, K("opts", K("sizes", Bool(true))), K("steps", steps...))
}

func init() { register(&Suite{Name: "w_c13", Gen: c13Gen, Run: wireRun, Par: 1}) }
