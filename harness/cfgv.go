package main

// Suite cfgv (C13): config.MQTT.Validate against the guard list regenerated from its source (Gen/ValidateTable.v,
// interpreted by Model/ConfigV.v).
//
//	input : ((qos N) (queued Z) (recv N) (packet N) (inflight N) (mode xBYTES))
//	output: ((ok 0|1) (err xTEXT))

import (
	"github.com/DrmagicE/gmqtt/config"
)

func cfgvRun(in *Sx) *Sx {
	c := config.DefaultConfig().MQTT
	c.MaximumQoS = uint8(in.Field1("qos").Int())
	c.MaxQueuedMsg = in.Field1("queued").Int()
	c.ReceiveMax = uint16(in.Field1("recv").Int())
	c.MaxPacketSize = uint32(in.Field1("packet").Uint())
	c.MaxInflight = uint16(in.Field1("inflight").Int())
	c.DeliveryMode = in.Field1("mode").Str()
	if err := c.Validate(); err != nil {
		return L(K("ok", I(0)), K("err", S(err.Error())))
	}
	return L(K("ok", I(1)), K("err", S("")))
}

func cfgvGen(r *Rng, i int) *Sx {
	// mostly valid configurations, each field now and then at or beyond a boundary
	qos := Pick(r, []int{0, 1, 2, 2, 2, 3, 255})
	queued := Pick(r, []int{1000, 1000, 1, 2, 100, 65535, 65536, 0, -1, -1000, 1 << 40})
	recv := Pick(r, []int{100, 100, 1, 65535, 0})
	packet := Pick(r, []uint64{268435456, 268435456, 1, 4294967295, 0})
	inflight := Pick(r, []int{100, 1, 2, 65535, 0})
	switch r.Intn(4) {
	case 0:
		inflight = queued // the boundary max_inflight = max_queued_messages
	case 1:
		inflight = queued + 1
	}
	if inflight < 0 || inflight > 65535 {
		inflight = 65535
	}
	mode := Pick(r, []string{"onlyonce", "onlyonce", "overlap", "overlap", "", "Overlap", "onlyonce ", "both"})
	return L(K("qos", I(qos)), K("queued", I(queued)), K("recv", I(recv)), K("packet", U(packet)), K("inflight", I(inflight)), K("mode", S(mode)))
}

func init() { register(&Suite{Name: "cfgv", Gen: cfgvGen, Run: cfgvRun}) }
