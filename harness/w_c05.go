package main

// Suite w_c05: scenarios for property C05 (session life cycle: resume iff it should, and one
// network connection per client id). Oracle: ocaml/o_c05.ml.
//
// FAMILY. Three client ids (c1, c2, c3) live through random histories of
//   connect   v3 (3.1), v4 (3.1.1), v5; Clean Start 0/1; v5 Session Expiry Interval absent or one of
//             0, 1, 2, 5, 30, 100, 7200, 100000, 0xFFFFFFFF; always on a NEW socket label; also while
//             another connection (live, or dead-but-open after DISCONNECT) holds the client id (take-over)
//   subscribe / unsubscribe (plain filters with and without wildcards, QoS 0-2, v5 No Local / RAP / RH bits)
//   publish   by connected clients (QoS 0-2, a QoS 2 PUBLISH is followed by its PUBREL) and through the
//             API, to online, offline and dead-but-attached sessions; every payload is unique
//   acks      PUBACK / PUBREC / PUBCOMP for some of the publishes the clients received, so that sessions carry
//             in-flight QoS1, in-flight QoS2, PUBREC'ed QoS2 and never transmitted messages over a reconnect
//   disconnect (v5: with and without a new Session Expiry Interval, also the 0 -> non-zero protocol error),
//             followed by close (3 of 4) or leaving the socket open; abrupt close
//   terminate (TerminateSession on online, offline and unknown client ids)
//   advance   at most 4 per scenario, each = 200 ms mod 1 s (every sum of advances is 200..800 ms mod 1 s, so
//             no expiry comparison is closer than 200 ms to a whole second), just below / just above one
//             of the expiry intervals in play, also while the client is online; optional expire_check
// under configurations with delivery overlap/onlyonce, queue_qos0 0/1, session_expiry 0, 1, 2, 5, 60, 7200,
// 0xFFFFFFFF.
//
// The generator keeps its own book of the sessions only to choose acknowledgements that fit what the client
// (presumably) received: (rx K) / (rxrel K) are used only for packets whose QoS is predictable.
//
// DELIBERATELY EXCLUDED (so that the oracle's expectation is exact): wills, retained messages, shared
// subscriptions, topic aliases, Receive Maximum / Maximum Packet Size, message expiry, small max_inflight /
// max_queued (never more than 30 messages per scenario), keep alive, authentication and hooks, malformed or
// rejected packets, broker assigned client ids, any packet on a socket after its DISCONNECT, a second
// CONNECT on a connection, and truly simultaneous CONNECTs (the runner brings the broker to quiescence
// after every step).

import "sort"

type c5Sub struct {
	qos int
	nl  bool
}

type c5Out struct {
	qos   int
	state int  // 0 never transmitted, 1 transmitted and unacknowledged, 2 PUBREC sent by the client
	amb   bool // position among the copies of one message unpredictable: never acknowledged
	sock  *c5Sock
	idx   int // state 1: (rx idx) on sock; state 2: (rxrel idx) on sock
}

type c5Sess struct {
	exists   bool
	subs     map[string]c5Sub
	out      []*c5Out
	e        int64 // expiry interval in seconds
	att      *c5Sock
	offSince int64
}

type c5Sock struct {
	label, ver int
	cid        string
	open       bool
	live       bool
	nextPid    int
	nrx, nrel  int
}

var c5Topics = []string{"a", "a", "b", "a/b", "a/c"}
var c5Filters = []string{"a", "b", "a/b", "+", "a/+", "#", "a/#", "+/b"}
var c5Cids = []string{"c1", "c1", "c1", "c2", "c2", "c3"}
var c5Seis = []uint64{0, 1, 2, 5, 30, 30, 100, 100, 7200, 100000, 4294967295}

func c5Levels(s string) []string {
	var out []string
	cur := ""
	for i := 0; i < len(s); i++ {
		if s[i] == '/' {
			out = append(out, cur)
			cur = ""
		} else {
			cur += string(s[i])
		}
	}
	return append(out, cur)
}

func c5Match(topic, filter string) bool {
	t, f := c5Levels(topic), c5Levels(filter)
	for i, fl := range f {
		if fl == "#" {
			return true
		}
		if i >= len(t) || (fl != "+" && fl != t[i]) {
			return false
		}
	}
	return len(t) == len(f)
}

func c5Gen(r *Rng, i int) *Sx {
	cfgExp := Pick(r, []uint64{0, 1, 2, 5, 60, 60, 7200, 7200, 7200, 4294967295})
	// "raise" scenarios (1 in 5): v5 sessions connect with a short Session Expiry Interval and DISCONNECT with a longer
	// one (within the configured maximum), so that a later resume falls between the two values
	raise := r.Chance(1, 5)
	if raise {
		cfgExp = Pick(r, []uint64{7200, 4294967295})
	}
	// in 1 of 4 scenarios a fourth session belongs to a client that connects with a zero-length client id first (MQTT 5:
	// the broker assigns one and reports it in CONNACK) and later presents the assigned id `auto1`
	allCids := []string{"c1", "c2", "c3"}
	pickCids := c5Cids
	autoFirst := false
	if r.Chance(1, 4) {
		allCids = append(allCids, "auto1")
		pickCids = append(append([]string{}, c5Cids...), "auto1", "auto1", "auto1")
		autoFirst = true
	}
	onlyonce := r.Bool()
	mode := "overlap"
	if onlyonce {
		mode = "onlyonce"
	}
	cfg := K("cfg",
		K("delivery", A(mode)),
		K("max_inflight", I(Pick(r, []int{32, 100, 65535}))), K("max_queued", I(1000)),
		K("queue_qos0", Bool(r.Bool())),
		K("session_expiry", U(cfgExp)),
		K("message_expiry", I(0)),
		K("recv_max", I(100)), K("alias_max", I(Pick(r, []int{10, 0}))),
		K("max_packet", I(268435456)), K("max_qos", I(2)),
		K("retain_avail", Bool(true)), K("wildcard", Bool(true)), K("subid", Bool(true)), K("shared", Bool(true)),
		K("max_keepalive", I(300)), K("allow_zero_len", Bool(true)), K("inflight_expiry", I(30)))

	var steps []*Sx
	add := func(x *Sx) { steps = append(steps, x) }
	var clock int64
	sess := map[string]*c5Sess{}
	for _, c := range allCids {
		sess[c] = &c5Sess{}
	}
	var socks []*c5Sock
	nmsg := 0
	nadv := 0
	hugeAdv := false
	inPlay := map[uint64]bool{cfgExp: true} // expiry intervals the scenario has used so far

	closeSock := func(s *c5Sock) {
		s.open, s.live = false, false
		ss := sess[s.cid]
		if ss.exists && ss.att == s {
			ss.att = nil
			if ss.e == 0 {
				ss.exists = false
			} else {
				ss.offSince = clock
			}
		}
	}
	connect := func(cid string) {
		ver := Pick(r, []int{3, 4, 4, 5, 5, 5})
		clean := r.Chance(1, 4)
		short := raise && r.Chance(3, 4)
		if short {
			ver, clean = 5, r.Chance(1, 8)
		}
		sendCid := cid
		if cid == "auto1" && autoFirst {
			// the first CONNECT of this client: zero-length client id, MQTT 5 (the CONNACK tells the assigned id)
			autoFirst = false
			sendCid = ""
			ver = 5
		}
		s := &c5Sock{label: len(socks) + 1, ver: ver, cid: cid, open: true, live: true, nextPid: 1}
		socks = append(socks, s)
		props := []*Sx{}
		var e uint64
		if ver == 5 {
			if r.Chance(5, 6) {
				sei := Pick(r, c5Seis)
				if short {
					sei = Pick(r, []uint64{1, 2, 5})
				}
				props = append(props, K("sei", U(sei)))
				inPlay[sei] = true
				e = sei
			}
			if e > cfgExp {
				e = cfgExp
			}
		} else if !clean {
			e = cfgExp
		}
		add(L(A("connect"), I(s.label), I(ver), K("cid", S(sendCid)), K("clean", Bool(clean)), K("keepalive", I(0)), K("props", props...)))
		ss := sess[cid]
		if ss.exists && ss.att != nil {
			closeSock(ss.att) // take-over
		}
		if ss.exists && clock-ss.offSince > ss.e*1000 {
			ss.exists = false
		}
		if !(ss.exists && !clean) {
			*ss = c5Sess{exists: true, subs: map[string]c5Sub{}}
		}
		ss.e = int64(e)
		ss.att = s
		for _, o := range ss.out {
			o.sock = s
			if o.state == 2 {
				o.idx = s.nrel
				s.nrel++
			} else {
				o.state = 1
				o.idx = s.nrx
				s.nrx++
			}
		}
	}
	deliver := func(topic string, qos int, src string) {
		cids := allCids
		for _, cid := range cids {
			ss := sess[cid]
			if !ss.exists {
				continue
			}
			var fs []string
			for f := range ss.subs {
				fs = append(fs, f)
			}
			sort.Strings(fs)
			var copies []int
			for _, f := range fs {
				sb := ss.subs[f]
				if !c5Match(topic, f) || (sb.nl && src == cid) {
					continue
				}
				q := min(qos, sb.qos)
				if onlyonce && len(copies) > 0 {
					copies[0] = max(copies[0], q)
				} else {
					copies = append(copies, q)
				}
			}
			first, amb := 0, false
			for _, q := range copies {
				if q > 0 {
					if first == 0 {
						first = q
					} else if q != first {
						amb = true
					}
				}
			}
			for _, q := range copies {
				if q == 0 {
					continue
				}
				o := &c5Out{qos: q, amb: amb}
				ss.out = append(ss.out, o)
				if ss.att != nil && ss.att.live {
					o.state, o.sock, o.idx = 1, ss.att, ss.att.nrx
					ss.att.nrx++
				}
			}
		}
	}
	pickTopic := func() string {
		if r.Chance(2, 3) {
			var l []string
			for _, c := range allCids {
				if ss := sess[c]; ss.exists {
					for _, t := range c5Topics {
						for _, f := range c5Filters {
							if _, ok := ss.subs[f]; ok && c5Match(t, f) {
								l = append(l, t)
							}
						}
					}
				}
			}
			if len(l) > 0 {
				return Pick(r, l)
			}
		}
		return Pick(r, c5Topics)
	}
	liveSocks := func() []*c5Sock {
		var l []*c5Sock
		for _, s := range socks {
			if s.live {
				l = append(l, s)
			}
		}
		return l
	}

	connect("c1")
	n := r.Range(10, 40)
	for k := 0; k < n && len(socks) < 14; k++ {
		live := liveSocks()
		offline, nosubs := false, false
		for _, c := range allCids {
			if ss := sess[c]; ss.exists && ss.att == nil {
				offline = true
			} else if ss.exists && ss.att.live && len(ss.subs) == 0 {
				nosubs = true
			}
		}
		w := map[string]int{"connect": 10, "subscribe": 10, "unsubscribe": 2, "publish": 18, "api": 6, "ack": 9, "disconnect": 8, "close": 7, "terminate": 2, "advance": 5}
		if offline {
			w["connect"] += 10
			w["advance"] += 7
			w["api"] += 8
			w["publish"] += 6
		}
		if nosubs {
			w["subscribe"] += 20
		}
		if raise {
			w["disconnect"] += 10
			w["advance"] += 4
		}
		if len(live) == 0 {
			w["subscribe"], w["unsubscribe"], w["publish"], w["ack"], w["disconnect"] = 0, 0, 0, 0, 0
			w["connect"] += 20
		}
		if nmsg >= 30 {
			w["publish"], w["api"] = 0, 0
		}
		if nadv >= 4 {
			w["advance"] = 0
		}
		kinds := []string{"connect", "subscribe", "unsubscribe", "publish", "api", "ack", "disconnect", "close", "terminate", "advance"}
		tot := 0
		for _, kd := range kinds {
			tot += w[kd]
		}
		x := r.Intn(tot)
		kind := ""
		for _, kd := range kinds {
			if x < w[kd] {
				kind = kd
				break
			}
			x -= w[kd]
		}
		switch kind {
		case "connect":
			// connect: mostly a client id without a live connection; 1 in 4 whatever (take-over)
			cid := Pick(r, pickCids)
			if !r.Chance(1, 4) {
				for t := 0; t < 4; t++ {
					if ss := sess[cid]; ss.exists && ss.att != nil && ss.att.live {
						cid = Pick(r, pickCids)
					}
				}
			}
			if offline && r.Chance(2, 3) {
				var l []string
				for _, c := range allCids {
					if ss := sess[c]; ss.exists && ss.att == nil {
						l = append(l, c)
					}
				}
				cid = Pick(r, l)
			}
			connect(cid)
		case "subscribe":
			s := Pick(r, live)
			items := []*Sx{A("subscribe"), I(s.nextPid), K("props")}
			s.nextPid++
			ss := sess[s.cid]
			for t := 0; t < r.Range(1, 2); t++ {
				f := Pick(r, c5Filters)
				q := Pick(r, []int{0, 1, 1, 2, 2})
				nl, rap, rh := false, false, 0
				if s.ver == 5 {
					nl, rap, rh = r.Chance(1, 4), r.Chance(1, 3), r.Intn(3)
				}
				items = append(items, L(A("t"), S(f), I(q), Bool(nl), Bool(rap), I(rh)))
				ss.subs[f] = c5Sub{qos: q, nl: nl}
			}
			add(L(A("send"), I(s.label), L(items...)))
		case "unsubscribe":
			s := Pick(r, live)
			f := Pick(r, c5Filters)
			add(L(A("send"), I(s.label), L(A("unsubscribe"), I(s.nextPid), K("props"), S(f))))
			s.nextPid++
			delete(sess[s.cid].subs, f)
		case "publish":
			s := Pick(r, live)
			qos := r.Intn(3)
			pid := 0
			if qos > 0 {
				pid = s.nextPid
				s.nextPid++
			}
			topic := pickTopic()
			nmsg++
			add(L(A("send"), I(s.label), L(A("publish"), Bool(false), I(qos), Bool(false), S(topic), S("m"+itoa(nmsg)), I(pid), K("props"))))
			deliver(topic, qos, s.cid)
			if qos == 2 {
				add(L(A("send"), I(s.label), L(A("pubrel"), I(pid), I(0), K("props"))))
			}
		case "api":
			topic := pickTopic()
			qos := r.Intn(3)
			nmsg++
			add(L(A("api_publish"), L(A("m"), A("0"), I(qos), A("0"), S(topic), S("m"+itoa(nmsg)), A("0"), S(""), B(nil), A("0"), A("0"), S(""), L(), L())))
			deliver(topic, qos, "")
		case "ack":
			// acknowledge something predictable
			type cand struct {
				ss *c5Sess
				k  int
			}
			var cs []cand
			for _, s := range live {
				ss := sess[s.cid]
				for k, o := range ss.out {
					if o.sock == s && !o.amb && o.state >= 1 {
						cs = append(cs, cand{ss, k})
					}
				}
			}
			if len(cs) == 0 {
				continue
			}
			c := Pick(r, cs)
			o := c.ss.out[c.k]
			if o.state == 2 && r.Bool() {
				continue // leave it between PUBREC and PUBCOMP
			}
			s := o.sock
			switch {
			case o.state == 1 && o.qos == 1:
				add(L(A("send"), I(s.label), L(A("puback"), wireRx(o.idx), I(0), K("props"))))
				c.ss.out = append(c.ss.out[:c.k:c.k], c.ss.out[c.k+1:]...)
			case o.state == 1:
				add(L(A("send"), I(s.label), L(A("pubrec"), wireRx(o.idx), I(0), K("props"))))
				o.state, o.idx = 2, s.nrel
				s.nrel++
			default:
				add(L(A("send"), I(s.label), L(A("pubcomp"), wireRxRel(o.idx), I(0), K("props"))))
				c.ss.out = append(c.ss.out[:c.k:c.k], c.ss.out[c.k+1:]...)
			}
		case "disconnect":
			s := Pick(r, live)
			props := []*Sx{}
			ss := sess[s.cid]
			if s.ver == 5 && (r.Chance(1, 2) || raise) {
				sei := Pick(r, []uint64{0, 1, 5, 100, 100000})
				if raise && r.Chance(3, 4) {
					sei = Pick(r, []uint64{30, 100})
				}
				props = append(props, K("sei", U(sei)))
				inPlay[sei] = true
				if !(ss.e == 0 && sei != 0) {
					// what the broker does (no cap by the configured expiry); the oracle has its own opinion
					ss.e = int64(sei)
				}
			}
			add(L(A("send"), I(s.label), L(A("disconnect"), I(0), K("props", props...))))
			s.live = false
			if r.Chance(3, 4) {
				add(L(A("close"), I(s.label)))
				closeSock(s)
			}
		case "close":
			var l []*c5Sock
			for _, s := range socks {
				if s.open {
					l = append(l, s)
				}
			}
			if len(l) == 0 {
				continue
			}
			s := Pick(r, l)
			add(L(A("close"), I(s.label)))
			closeSock(s)
		case "terminate":
			cid := Pick(r, pickCids)
			if cid == "auto1" && autoFirst {
				cid = "c1" // no id has been assigned yet
			}
			add(L(A("terminate"), S(cid)))
			ss := sess[cid]
			if ss.exists {
				if ss.att != nil {
					ss.att.open, ss.att.live = false, false
				}
				*ss = c5Sess{}
			}
		case "advance":
			var ts []uint64
			for t := range inPlay {
				if t != 4294967295 || !hugeAdv {
					ts = append(ts, t)
				}
			}
			sort.Slice(ts, func(a, b int) bool { return ts[a] < ts[b] })
			if len(ts) == 0 {
				ts = []uint64{1}
			}
			t := Pick(r, ts)
			if r.Chance(1, 5) {
				t = Pick(r, []uint64{0, 1, 3})
			}
			if t == 4294967295 {
				hugeAdv = true
			}
			ms := t*1000 + 200
			if t > 0 && r.Bool() {
				ms = t*1000 - 800
			}
			nadv++
			clock += int64(ms)
			add(L(A("advance"), U(ms)))
			if r.Bool() {
				add(L(A("expire_check")))
			}
		}
	}
	add(L(A("inspect")))
	return L(cfg, K("steps", steps...))
}

func itoa(i int) string { return I(i).Atom }

func init() { register(&Suite{Name: "w_c05", Gen: c5Gen, Run: wireRun, Par: 1}) }
