package main

import (
	"bufio"
	"flag"
	"fmt"
	"os"
	"runtime"
	"sync"
)

// A suite generates cases and runs one case against the implementation.
type Suite struct {
	Name string
	// Gen produces the i-th case input from a per-case rng.
	Gen func(r *Rng, i int) *Sx
	// Run executes a case on the real code and returns the observable.
	Run func(input *Sx) *Sx
	// Par is the number of cases that may run concurrently (0 = NumCPU).
	Par int
}

var suites = map[string]*Suite{}

func register(s *Suite) { suites[s.Name] = s }

func main() {
	if len(os.Args) < 2 {
		fmt.Fprintln(os.Stderr, "usage: harness gen <suite> -seed S -n N | harness run")
		os.Exit(2)
	}
	switch os.Args[1] {
	case "gen":
		fs := flag.NewFlagSet("gen", flag.ExitOnError)
		seed := fs.Uint64("seed", 1, "seed")
		n := fs.Int("n", 100, "cases")
		start := fs.Int("start", 0, "first id")
		fs.Parse(os.Args[3:])
		s := suites[os.Args[2]]
		if s == nil {
			fmt.Fprintln(os.Stderr, "unknown suite", os.Args[2])
			os.Exit(2)
		}
		w := bufio.NewWriter(os.Stdout)
		root := NewRng(*seed ^ hashName(s.Name))
		for i := 0; i < *n; i++ {
			r := root.Fork()
			c := s.Gen(r, i)
			fmt.Fprintf(w, "(%s g%d %s)\n", s.Name, *start+i, c.String())
		}
		w.Flush()
	case "run":
		runAll()
	default:
		fmt.Fprintln(os.Stderr, "unknown command")
		os.Exit(2)
	}
}

func hashName(s string) uint64 {
	var h uint64 = 1469598103934665603
	for i := 0; i < len(s); i++ {
		h ^= uint64(s[i])
		h *= 1099511628211
	}
	return h
}

type job struct {
	idx   int
	suite *Suite
	id    string
	input *Sx
}

func safeRun(s *Suite, in *Sx) (out *Sx) {
	defer func() {
		if e := recover(); e != nil {
			out = L(K("harness_panic", S(fmt.Sprint(e))))
		}
	}()
	return s.Run(in)
}

func runAll() {
	sc := bufio.NewScanner(os.Stdin)
	sc.Buffer(make([]byte, 1<<20), 1<<28)
	var jobs []job
	for sc.Scan() {
		line := sc.Text()
		if len(line) == 0 {
			continue
		}
		x, err := ParseSx(line)
		if err != nil || !x.IsL || len(x.List) < 3 {
			fmt.Fprintln(os.Stderr, "bad case line:", err)
			os.Exit(2)
		}
		s := suites[x.List[0].Atom]
		if s == nil {
			fmt.Fprintln(os.Stderr, "unknown suite", x.List[0].Atom)
			os.Exit(2)
		}
		jobs = append(jobs, job{len(jobs), s, x.List[1].Atom, x.List[2]})
	}
	results := make([]string, len(jobs))
	par := runtime.NumCPU()
	if len(jobs) > 0 && jobs[0].suite.Par > 0 {
		par = jobs[0].suite.Par
	}
	ch := make(chan job)
	var wg sync.WaitGroup
	for w := 0; w < par; w++ {
		wg.Add(1)
		go func() {
			defer wg.Done()
			for j := range ch {
				obs := safeRun(j.suite, j.input)
				results[j.idx] = fmt.Sprintf("(%s %s %s %s)", j.suite.Name, j.id, j.input.String(), obs.String())
			}
		}()
	}
	for _, j := range jobs {
		ch <- j
	}
	close(ch)
	wg.Wait()
	w := bufio.NewWriter(os.Stdout)
	for _, r := range results {
		fmt.Fprintln(w, r)
	}
	w.Flush()
}
