package main

// Generators of well-formed wire-level scenarios for the broker properties. They use the
// runner of wire_runner.go (wireRun) and its scenario format (WIRE.md). Only packets the
// broker's decoder accepts are produced here; malformed traffic belongs to suite `codec`
// and `wire`.

import "strings"

type wvSock struct {
	label   int
	ver     int
	cid     string
	open    bool
	conn    bool // CONNECT sent and presumably accepted
	nextPid int
	rx      int // QoS>0 publishes presumably received (only guides generation)
	acked   int
	sentQ2  []int
}

var wvTopics = []string{"a", "a", "b", "a/b", "a/a", "b/a", "$s/x"}
var wvFilters = []string{"a", "b", "a/b", "+", "a/+", "#", "a/#", "+/b", "+/+", "b/#", "$s/#", "$s/+"}
var wvShared = []string{"$share/g/a", "$share/g/#", "$share/g/a/+", "$share/h/a"}

func wvCfg(r *Rng, small bool) *Sx {
	maxInflight := 100
	maxQueued := 1000
	if small {
		maxInflight = Pick(r, []int{100, 1, 2, 3})
		maxQueued = Pick(r, []int{1000, 3, 5})
		if maxQueued < maxInflight {
			maxQueued = maxInflight
		}
	}
	return K("cfg",
		K("delivery", A(Pick(r, []string{"onlyonce", "overlap"}))),
		K("max_inflight", I(maxInflight)), K("max_queued", I(maxQueued)),
		K("queue_qos0", Bool(!r.Chance(1, 4))),
		K("session_expiry", I(Pick(r, []int{7200, 7200, 60, 2}))),
		K("message_expiry", I(Pick(r, []int{7200, 7200, 60, 0}))),
		K("recv_max", I(Pick(r, []int{100, 100, 100, 2}))),
		K("alias_max", I(Pick(r, []int{10, 10, 2, 0}))),
		K("max_packet", I(268435456)), K("max_qos", I(2)),
		K("retain_avail", Bool(true)), K("wildcard", Bool(true)), K("subid", Bool(true)), K("shared", Bool(true)),
		K("max_keepalive", I(300)), K("allow_zero_len", Bool(true)), K("inflight_expiry", I(30)))
}

func wvPubProps(r *Rng) []*Sx {
	var ps []*Sx
	if r.Chance(1, 4) {
		ps = append(ps, K("msgexpiry", I(Pick(r, []int{60, 100000, 7300}))))
	}
	if r.Chance(1, 6) {
		ps = append(ps, K("pfmt", I(r.Intn(2))))
	}
	if r.Chance(1, 6) {
		ps = append(ps, K("ctype", S(Pick(r, []string{"t", "text/plain"}))))
	}
	if r.Chance(1, 6) {
		ps = append(ps, K("resp", S(Pick(r, []string{"r", "a/b"}))))
	}
	if r.Chance(1, 6) {
		ps = append(ps, K("corr", S(Pick(r, []string{"c", "corr"}))))
	}
	for r.Chance(1, 6) {
		ps = append(ps, K("user", S(Pick(r, []string{"k", "key"})), S(Pick(r, []string{"v", "", "w"}))))
	}
	return ps
}

func wvConnect(r *Rng, s *wvSock, clean bool, will bool) *Sx {
	items := []*Sx{A("connect"), I(s.label), I(s.ver), K("cid", S(s.cid)), K("clean", Bool(clean)), K("keepalive", I(0))}
	if will {
		wp := []*Sx{}
		if s.ver == 5 {
			wp = wvPubProps(r)
			if r.Chance(1, 3) {
				wp = append(wp, K("willdelay", I(Pick(r, []int{0, 1, 100}))))
			}
		}
		items = append(items, K("will", K("topic", S(Pick(r, wvTopics[:6]))), K("payload", S("w"+s.cid)), K("qos", I(r.Intn(3))),
			K("retain", Bool(r.Chance(1, 4))), K("props", wp...)))
	}
	props := []*Sx{}
	if s.ver == 5 {
		if r.Chance(2, 3) {
			props = append(props, K("sei", I(Pick(r, []int{0, 1, 30, 100000, 4294967295}))))
		}
		if r.Chance(1, 3) {
			props = append(props, K("recvmax", I(Pick(r, []int{1, 2, 5, 65535}))))
		}
		if r.Chance(1, 4) {
			props = append(props, K("aliasmax", I(Pick(r, []int{1, 2, 10}))))
		}
		if r.Chance(1, 5) {
			props = append(props, K("maxpkt", I(Pick(r, []int{40, 60, 100, 100000}))))
		}
	}
	items = append(items, K("props", props...))
	s.open, s.conn, s.nextPid, s.rx, s.acked, s.sentQ2 = true, true, 1, 0, 0, nil
	return L(items...)
}

func wvSubscribe(r *Rng, s *wvSock, shared bool) *Sx {
	items := []*Sx{A("subscribe"), I(s.nextPid)}
	s.nextPid++
	props := []*Sx{}
	if s.ver == 5 && r.Chance(1, 3) {
		props = append(props, K("subid", I(r.Range(1, 3))))
	}
	items = append(items, K("props", props...))
	for k := 0; k < r.Range(1, 2); k++ {
		f := Pick(r, wvFilters)
		if shared && s.ver == 5 && r.Chance(1, 3) {
			f = Pick(r, wvShared)
		}
		nl, rap, rh := false, false, 0
		if s.ver == 5 {
			nl, rap, rh = r.Chance(1, 4), r.Chance(1, 3), r.Intn(3)
			if strings.HasPrefix(f, "$share/") {
				nl = false // NoLocal on a shared subscription is a protocol error
			}
		}
		items = append(items, L(A("t"), S(f), I(r.Intn(3)), Bool(nl), Bool(rap), I(rh)))
	}
	return L(A("send"), I(s.label), L(items...))
}

func wvPublish(r *Rng, s *wvSock, retainOK bool) *Sx {
	qos := r.Intn(3)
	pid := 0
	if qos > 0 {
		pid = s.nextPid
		s.nextPid++
		if qos == 2 {
			s.sentQ2 = append(s.sentQ2, pid)
		}
	}
	props := []*Sx{}
	if s.ver == 5 {
		props = wvPubProps(r)
	}
	payload := "m" + Pick(r, []string{"1", "2", "3", "44", "555"})
	if retainOK && r.Chance(1, 12) {
		payload = ""
	}
	return L(A("send"), I(s.label), L(A("publish"), Bool(false), I(qos), Bool(retainOK && r.Chance(1, 4)), S(Pick(r, wvTopics)), S(payload), I(pid), K("props", props...)))
}

// wvGen: general well-formed scenarios
func wvGen(r *Rng, i int) *Sx {
	socks := []*wvSock{}
	for k := 1; k <= r.Range(2, 3); k++ {
		socks = append(socks, &wvSock{label: k, ver: Pick(r, []int{4, 5, 5, 3}), cid: Pick(r, []string{"c1", "c2", "c3"})})
	}
	steps := []*Sx{}
	add := func(x *Sx) { steps = append(steps, x) }
	for _, s := range socks {
		add(wvConnect(r, s, r.Chance(1, 2), r.Chance(1, 4)))
	}
	n := r.Range(4, 35)
	nadv := 0
	for k := 0; k < n; k++ {
		s := Pick(r, socks)
		if !s.open || !s.conn {
			if r.Chance(2, 3) {
				if r.Chance(1, 3) {
					s.ver = Pick(r, []int{4, 5, 5})
				}
				add(wvConnect(r, s, r.Chance(1, 3), r.Chance(1, 4)))
			}
			continue
		}
		switch x := r.Intn(100); {
		case x < 22:
			add(wvSubscribe(r, s, true))
		case x < 26:
			add(L(A("send"), I(s.label), L(A("unsubscribe"), I(s.nextPid), K("props"), S(Pick(r, append(wvFilters, wvShared...))))))
			s.nextPid++
		case x < 60:
			add(wvPublish(r, s, true))
			for _, o := range socks {
				o.rx++
			}
		case x < 72:
			if s.acked < s.rx {
				kind := Pick(r, []string{"puback", "pubrec", "pubcomp", "puback"})
				add(L(A("send"), I(s.label), L(A(kind), wireRx(s.acked), I(0), K("props"))))
				if kind != "pubrec" {
					s.acked++
				}
			}
		case x < 78:
			if len(s.sentQ2) > 0 {
				add(L(A("send"), I(s.label), L(A("pubrel"), I(s.sentQ2[0]), I(0), K("props"))))
				s.sentQ2 = s.sentQ2[1:]
			}
		case x < 83:
			props := []*Sx{}
			code := 0
			if s.ver == 5 {
				code = Pick(r, []int{0, 0, 4})
				if r.Chance(1, 3) {
					props = append(props, K("sei", I(Pick(r, []int{0, 1, 100}))))
				}
			}
			add(L(A("send"), I(s.label), L(A("disconnect"), I(code), K("props", props...))))
			s.conn = false
			if r.Chance(3, 4) {
				add(L(A("close"), I(s.label)))
				s.open = false
			}
		case x < 89:
			add(L(A("close"), I(s.label)))
			s.open, s.conn = false, false
		case x < 92:
			add(L(A("api_publish"), sxMsg(genMsg(r, Pick(r, wvTopics)))))
		case x < 94:
			add(L(A("terminate"), S(Pick(r, []string{"c1", "c2", "c3"}))))
		case x < 97:
			// all stored durations are whole seconds: keep every sum of advances at least 100 ms away from a
			// whole second (each advance is 300 ms mod 1 s, at most 6 per scenario) so that real-time jitter
			// can never decide a comparison
			if nadv < 6 {
				nadv++
				add(L(A("advance"), I(Pick(r, []int{300, 1300, 2300, 40300, 61300, 3000300}))))
			}
			if r.Bool() {
				add(L(A("expire_check")))
			}
		default:
			add(L(A("send"), I(s.label), L(A("pingreq"))))
		}
	}
	add(L(A("inspect")))
	return L(wvCfg(r, r.Chance(1, 3)), K("steps", steps...))
}

func init() { register(&Suite{Name: "wv", Gen: wvGen, Run: wireRun, Par: 1}) }
