package main

// Suite w_c12 - property C12 "message expiry is honoured and the remaining lifetime is forwarded".
//
// FAMILY. Publishers (client ids p1, p2; MQTT 3.1 / 3.1.1 / 5) and subscribers (client ids s1..s3;
// MQTT 3.1 / 3.1.1 / 5, v5 ones with or without Receive Maximum 1..3) are disjoint. Every subscriber
// owns one persistent session (clean 0, or v5 clean start with a huge Session Expiry Interval) and
// sends exactly one SUBSCRIBE with one non-shared filter (QoS 0..2, random NL/RAP/RH bits, sometimes
// a subscription identifier). Publishers send PUBLISH packets with retain 0, QoS 0..2, a payload
// that is unique in the scenario ("m<k>") and, when v5, a Message Expiry Interval drawn from
// {absent, 0, 1, 2, 3, 5, 60, 61, 7200, 7201, 100000, 2^32-1} plus unrelated properties; a QoS 2
// PUBLISH is completed with PUBREL in the next step. The configured maximum lifetime is drawn from
// {0 = none, 1, 2, 60, 7200, 100000}. Time passes through (advance N) - N = 100 ms mod 1 s, at most 4
// per scenario (2 when the scenario also has its single real (sleep 1100)), many of them aimed just
// below / just above the deadline of a waiting message. Real time only ever ADDS to a waiting time
// (the scripted clock shifts the stored timestamps, the wall clock keeps running), so every scripted
// waiting time is 100..400 ms past a whole second: 100 ms clear of it and at least 600 ms of real
// time (a slow machine) away from the next one. Subscribers go offline (close, or DISCONNECT + close), come back (clean 0,
// now and then with another protocol version / Receive Maximum), and acknowledge what they received
// late, in order or out of order (PUBACK / PUBREC / PUBCOMP with (rx K), (rxrel K)), so that with
// max_inflight or Receive Maximum 1..3 messages also wait behind a full in-flight window.
// queue_qos0 is on in 3 of 4 scenarios. The last step is (inspect) with (hooks (record 1)): the
// OnMsgDropped calls and the per client drop counters are the "reported" part of the property.
//
// The generator keeps its own little picture of the sessions (what waits, what is in flight) only to
// produce acknowledgements that make sense; the oracle does not trust it.
//
// DELIBERATELY EXCLUDED: retained messages and wills (their expiry is a property of the retained
// store), shared subscriptions (random member), several subscriptions per client (copies), a client
// that both publishes and subscribes, take-overs, clean-start reconnects of subscribers, session
// expiry (session_expiry 10^8 s, no expire_check), queue overflow (max_queued 1000), Maximum Packet
// Size, topic aliases, negative acknowledgements, api_publish, a subscriber that closes while it
// owes a PUBCOMP (the broker re-sends PUBREL outside its in-flight window after a reconnect, which
// belongs to the flow-control property), malformed packets, keep-alive.

import "strconv"

type c12Entry struct {
	qos int
	rel bool // PUBREC sent, PUBCOMP owed
}

type c12Pend struct {
	eq   int   // effective QoS
	life int64 // ms, -1 = never expires (as the broker sees it)
	t    int64
}

type c12Sub struct {
	label, ver int
	cid        string
	filter     string
	sq         int
	recvmax    int
	open       bool
	subscribed bool
	ever       bool
	nextPid    int
	pend       []c12Pend
	out        []*c12Entry
	rx         []*c12Entry
	rel        []*c12Entry
}

type c12Pub struct {
	label, ver int
	cid        string
	open       bool
	nextPid    int
}

var c12Topics = []string{"a", "a", "a/b", "b"}
var c12Filters = []string{"a", "a/b", "a/+", "a/#", "#", "+", "+/b", "b", "#", "a"}
var c12Expiries = []uint64{1, 2, 2, 3, 5, 5, 60, 60, 61, 7200, 7201, 100000, 100000, 4294967295}
var c12Maxima = []int{0, 0, 0, 1, 2, 60, 60, 7200, 7200, 7200, 100000}

func c12Match(filter, topic string) bool {
	f, t := splitSlash(filter), splitSlash(topic)
	for i, lv := range f {
		if lv == "#" {
			return true
		}
		if i >= len(t) {
			return false
		}
		if lv != "+" && lv != t[i] {
			return false
		}
	}
	return len(f) == len(t)
}

func splitSlash(s string) []string {
	var out []string
	cur := ""
	for i := 0; i < len(s); i++ {
		if s[i] == '/' {
			out = append(out, cur)
			cur = ""
		} else {
			cur += string(s[i])
		}
	}
	return append(out, cur)
}

func c12Gen(r *Rng, i int) *Sx {
	maxInflight := Pick(r, []int{100, 100, 1, 1, 2, 3})
	maxExpiry := Pick(r, c12Maxima)
	queueQos0 := !r.Chance(1, 4)
	cfg := K("cfg",
		K("delivery", A(Pick(r, []string{"onlyonce", "overlap"}))),
		K("max_inflight", I(maxInflight)), K("max_queued", I(1000)),
		K("queue_qos0", Bool(queueQos0)),
		K("session_expiry", I(100000000)),
		K("message_expiry", I(maxExpiry)),
		K("recv_max", I(100)), K("alias_max", I(Pick(r, []int{10, 0}))),
		K("max_packet", I(268435456)), K("max_qos", I(2)),
		K("retain_avail", Bool(true)), K("wildcard", Bool(true)), K("subid", Bool(true)), K("shared", Bool(true)),
		K("max_keepalive", I(300)), K("allow_zero_len", Bool(true)), K("inflight_expiry", I(Pick(r, []int{30, 30, 1}))))

	var steps []*Sx
	add := func(x *Sx) { steps = append(steps, x) }
	var now int64
	var pubs []*c12Pub
	var subs []*c12Sub
	label := 0
	for k := 1; k <= r.Range(1, 2); k++ {
		label++
		pubs = append(pubs, &c12Pub{label: label, ver: Pick(r, []int{5, 5, 5, 5, 4, 3}), cid: "p" + strconv.Itoa(k)})
	}
	for k := 1; k <= r.Range(1, 3); k++ {
		label++
		s := &c12Sub{label: label, ver: Pick(r, []int{5, 5, 5, 5, 4, 3}), cid: "s" + strconv.Itoa(k),
			filter: Pick(r, c12Filters), sq: Pick(r, []int{0, 1, 1, 2, 2})}
		if !queueQos0 && s.sq == 0 {
			// whether a QoS>0 message that a QoS 0 subscription downgrades is "a QoS 0 message" for queue_qos0
			// is not this property's business: keep the two apart
			s.sq = Pick(r, []int{1, 2})
		}
		subs = append(subs, s)
	}
	window := func(s *c12Sub) int {
		w := maxInflight
		if s.ver == 5 && s.recvmax > 0 && s.recvmax < w {
			w = s.recvmax
		}
		return w
	}
	drain := func(s *c12Sub) {
		for s.open && len(s.out) < window(s) && len(s.pend) > 0 {
			p := s.pend[0]
			s.pend = s.pend[1:]
			if p.life >= 0 && now-p.t > p.life {
				continue
			}
			if p.eq > 0 {
				e := &c12Entry{qos: p.eq}
				s.out = append(s.out, e)
				s.rx = append(s.rx, e)
			}
		}
	}
	drainAll := func() {
		for _, s := range subs {
			drain(s)
		}
	}
	connectPub := func(p *c12Pub) {
		add(L(A("connect"), I(p.label), I(p.ver), K("cid", S(p.cid)), K("clean", Bool(true)), K("keepalive", I(0)), K("props")))
		p.open, p.nextPid = true, 1
	}
	connectSub := func(s *c12Sub) {
		clean := false
		props := []*Sx{}
		if s.ver == 5 {
			clean = !s.ever && r.Bool()
			props = append(props, K("sei", U(Pick(r, []uint64{100000000, 100000000, 4294967295}))))
			s.recvmax = Pick(r, []int{0, 0, 1, 1, 2, 3})
			if s.recvmax > 0 {
				props = append(props, K("recvmax", I(s.recvmax)))
			}
		}
		add(L(A("connect"), I(s.label), I(s.ver), K("cid", S(s.cid)), K("clean", Bool(clean)), K("keepalive", I(0)), K("props", props...)))
		s.open, s.ever, s.nextPid = true, true, 1
		// unacknowledged publishes are sent again, in their original order, and count as received on the new socket
		s.rx = append([]*c12Entry{}, s.out...)
		s.rel = nil
		drain(s)
	}
	subscribe := func(s *c12Sub) {
		props := []*Sx{}
		nl, rap, rh := false, false, 0
		if s.ver == 5 {
			nl, rap, rh = r.Chance(1, 4), r.Chance(1, 3), r.Intn(3)
			if r.Chance(1, 4) {
				props = append(props, K("subid", I(r.Range(1, 3))))
			}
		}
		add(L(A("send"), I(s.label), L(A("subscribe"), I(s.nextPid), K("props", props...), L(A("t"), S(s.filter), I(s.sq), Bool(nl), Bool(rap), I(rh)))))
		s.nextPid++
		s.subscribed = true
	}
	// one acknowledgement step for entry e of s (PUBACK, PUBREC or PUBCOMP)
	ack := func(s *c12Sub, e *c12Entry) {
		idx := func(l []*c12Entry) int {
			for k, x := range l {
				if x == e {
					return k
				}
			}
			return -1
		}
		remove := func() {
			k := idx(s.out)
			s.out = append(s.out[:k:k], s.out[k+1:]...)
		}
		switch {
		case e.qos == 1:
			add(L(A("send"), I(s.label), L(A("puback"), wireRx(idx(s.rx)), I(0), K("props"))))
			remove()
		case !e.rel:
			add(L(A("send"), I(s.label), L(A("pubrec"), wireRx(idx(s.rx)), I(0), K("props"))))
			e.rel = true
			s.rel = append(s.rel, e)
		default:
			if r.Bool() {
				add(L(A("send"), I(s.label), L(A("pubcomp"), wireRxRel(idx(s.rel)), I(0), K("props"))))
			} else {
				add(L(A("send"), I(s.label), L(A("pubcomp"), wireRx(idx(s.rx)), I(0), K("props"))))
			}
			remove()
		}
		drain(s)
	}
	closeSub := func(s *c12Sub) {
		for _, e := range append([]*c12Entry{}, s.out...) {
			if e.rel {
				ack(s, e)
			}
		}
		if r.Chance(1, 4) {
			add(L(A("send"), I(s.label), L(A("disconnect"), I(0), K("props"))))
		}
		add(L(A("close"), I(s.label)))
		s.open = false
	}
	pubCount := 0
	var target *c12Sub // when set: the next publish matches this subscriber's filter
	minQos := 0
	publish := func(p *c12Pub) {
		qos := r.Range(minQos, 2)
		pid := 0
		if qos > 0 {
			pid = p.nextPid
			p.nextPid++
		}
		props := []*Sx{}
		life := int64(-1)
		if maxExpiry > 0 {
			life = int64(maxExpiry) * 1000
		}
		if p.ver == 5 {
			if r.Chance(5, 6) {
				e := Pick(r, c12Expiries)
				if r.Chance(1, 40) {
					e = 0
				}
				props = append(props, K("msgexpiry", U(e)))
				if e != 0 && (life < 0 || int64(e)*1000 < life) {
					life = int64(e) * 1000
				}
			}
			if r.Chance(1, 6) {
				props = append(props, K("pfmt", I(r.Intn(2))))
			}
			if r.Chance(1, 6) {
				props = append(props, K("ctype", S("t")))
			}
			if r.Chance(1, 6) {
				props = append(props, K("resp", S("r")))
			}
			if r.Chance(1, 6) {
				props = append(props, K("corr", S("c")))
			}
			if r.Chance(1, 6) {
				props = append(props, K("user", S("k"), S("v")))
			}
		}
		pubCount++
		topic := Pick(r, c12Topics)
		if target != nil {
			for try := 0; try < 8 && !c12Match(target.filter, topic); try++ {
				topic = Pick(r, c12Topics)
			}
		}
		add(L(A("send"), I(p.label), L(A("publish"), Bool(false), I(qos), Bool(false), S(topic), S("m"+strconv.Itoa(pubCount)), I(pid), K("props", props...))))
		for _, s := range subs {
			if !s.subscribed || !c12Match(s.filter, topic) {
				continue
			}
			eq := qos
			if s.sq < eq {
				eq = s.sq
			}
			if eq == 0 && !s.open && !queueQos0 {
				continue
			}
			s.pend = append(s.pend, c12Pend{eq: eq, life: life, t: now})
		}
		drainAll()
		if qos == 2 {
			add(L(A("send"), I(p.label), L(A("pubrel"), I(pid), I(0), K("props"))))
		}
	}

	// opening: everybody connects; most subscribers subscribe at once
	for _, p := range pubs {
		connectPub(p)
	}
	for _, s := range subs {
		connectSub(s)
		if r.Chance(5, 6) {
			subscribe(s)
		}
	}
	useSleep := r.Chance(1, 16)
	slept := false
	maxAdv := 4
	if useSleep {
		maxAdv = 2
	}
	nadv := 0
	gentle := false // prefer advances that a waiting message survives
	advance := func() {
		if nadv >= maxAdv {
			return
		}
		nadv++
		v := Pick(r, []int64{100, 1100, 1100, 1100, 2100, 2100, 2100, 4100, 4100, 59100, 60100, 61100, 7199100, 7200100, 99999100, 100000100})
		// aim at the deadline of a waiting message: just before it or just after it
		var cand []int64
		for _, s := range subs {
			for _, p := range s.pend {
				if p.life >= 0 {
					if rem := p.life - (now - p.t); rem > 0 {
						cand = append(cand, rem)
					}
				}
			}
		}
		if gentle {
			v = Pick(r, []int64{1100, 1100, 2100, 4100, 59100})
		}
		if len(cand) > 0 && r.Chance(2, 3) {
			rem := Pick(r, cand)
			// the largest value = 100 (mod 1000) below rem, or the smallest one above it
			below := (rem-100)/1000*1000 + 100
			if below >= rem {
				below -= 1000
			}
			above := below + 1000
			for above <= rem {
				above += 1000
			}
			switch {
			case below >= 100 && (gentle || r.Chance(3, 5)):
				v = below
			case below >= 1100 && r.Chance(1, 3):
				v = Pick(r, []int64{1100, below - 1000})
			default:
				v = above
			}
		}
		if v > 200000100 {
			// stay far below the session expiry (10^8 s) with all advances together
			v = Pick(r, []int64{1100, 61100, 100000100})
		}
		add(L(A("advance"), U(uint64(v))))
		now += v
		drainAll()
	}
	waiting := func() bool {
		for _, s := range subs {
			if len(s.pend) > 0 {
				return true
			}
		}
		return false
	}
	anyPub := func() *c12Pub {
		p := Pick(r, pubs)
		if !p.open {
			if r.Chance(1, 3) {
				p.ver = Pick(r, []int{5, 5, 4, 3})
			}
			connectPub(p)
		}
		return p
	}
	// a second of real time, then a publish for a subscriber that sat idle meanwhile (a v5 one if there is one)
	afterSleep := func() {
		add(L(A("sleep"), I(1100)))
		now += 1100
		drainAll()
		for _, s := range subs {
			if s.open && s.subscribed && len(s.out) < window(s) && (target == nil || (s.ver == 5 && target.ver != 5)) {
				target = s
			}
		}
		publish(anyPub())
		target = nil
	}
	n := r.Range(6, 30)
	for k := 0; k < n; k++ {
		if waiting() && nadv < maxAdv && r.Chance(1, 3) {
			advance()
			continue
		}
		switch x := r.Intn(100); {
		case x < 40:
			publish(anyPub())
		case x < 55:
			s := Pick(r, subs)
			if s.open && len(s.out) > 0 {
				e := s.out[0]
				if r.Chance(1, 4) {
					e = Pick(r, s.out)
				}
				ack(s, e)
			} else if s.open && !s.subscribed {
				subscribe(s)
			}
		case x < 75:
			s := Pick(r, subs)
			if s.open {
				if !s.subscribed {
					subscribe(s)
				} else {
					closeSub(s)
					if r.Chance(2, 3) {
						publish(anyPub())
					}
				}
			} else {
				if r.Chance(1, 6) {
					s.ver = Pick(r, []int{5, 5, 4, 3})
				}
				connectSub(s)
			}
		case x < 80:
			advance()
		case x < 90 && k+6 < n:
			// an episode: make one subscriber wait (offline, or behind a full window), publish for it, let a
			// little time pass, release it
			s := Pick(r, subs)
			if !s.subscribed || nadv >= maxAdv {
				break
			}
			target = s
			if s.open {
				if s.sq > 0 && window(s) <= 3 && r.Chance(2, 3) {
					minQos = 1
					for try := 0; try < 6 && len(s.out) < window(s); try++ {
						publish(anyPub())
					}
					minQos = 0
				} else {
					closeSub(s)
				}
			}
			for j := r.Range(1, 3); j > 0; j-- {
				publish(anyPub())
			}
			target = nil
			gentle = r.Chance(2, 3)
			advance()
			if r.Chance(1, 3) {
				advance()
			}
			gentle = false
			if !s.open {
				connectSub(s)
			}
			for j := r.Range(0, 2); j > 0 && s.open && len(s.out) > 0; j-- {
				ack(s, s.out[0])
			}
		case x < 92:
			p := Pick(r, pubs)
			if p.open {
				add(L(A("close"), I(p.label)))
				p.open = false
			}
		case x < 98:
			if useSleep && !slept {
				slept = true
				afterSleep()
			}
		default:
			s := Pick(r, subs)
			if s.open {
				add(L(A("send"), I(s.label), L(A("pingreq"))))
			}
		}
	}
	if useSleep && !slept {
		afterSleep()
		if r.Bool() {
			publish(anyPub())
		}
	}
	// closing phase: let waiting subscribers come back so that what expired meanwhile is looked at
	if r.Chance(3, 4) {
		for _, s := range subs {
			if !s.open && r.Chance(3, 4) {
				connectSub(s)
			}
			for s.open && len(s.out) > 0 && r.Chance(2, 3) {
				ack(s, s.out[0])
			}
		}
	}
	add(L(A("inspect")))
	return L(cfg, K("hooks", K("record", Bool(true))), K("steps", steps...))
}

func init() { register(&Suite{Name: "w_c12", Gen: c12Gen, Run: wireRun, Par: 1}) }
