package main

import (
	"errors"
	"fmt"
	"net"
	"net/http"
	"sync"
	"sync/atomic"
	"time"

	"github.com/gorilla/websocket"

	"github.com/DrmagicE/gmqtt/server"
)

// C18 component level: the real wsConn driven with explicit read sizes over a real
// gorilla websocket connection.

type c18plan struct {
	reads []int
	done  chan *Sx
}

var (
	c18once  sync.Once
	c18addr  string
	c18plans sync.Map
	c18seq   int64
)

func c18server() {
	up := &websocket.Upgrader{ReadBufferSize: 1024, WriteBufferSize: 1024, CheckOrigin: func(r *http.Request) bool { return true }}
	ln, err := net.Listen("tcp", "127.0.0.1:0")
	if err != nil {
		panic(err)
	}
	c18addr = ln.Addr().String()
	mux := http.NewServeMux()
	mux.HandleFunc("/", func(w http.ResponseWriter, r *http.Request) {
		v, ok := c18plans.Load(r.URL.Query().Get("id"))
		if !ok {
			return
		}
		plan := v.(*c18plan)
		c, err := up.Upgrade(w, r, nil)
		if err != nil {
			plan.done <- L(K("chunks"), K("err", A("upgrade")))
			return
		}
		defer c.Close()
		ws := server.VerifNewWsConn(c)
		chunks := []*Sx{}
		errk := "none"
		for _, p := range plan.reads {
			buf := make([]byte, p)
			c.SetReadDeadline(time.Now().Add(2 * time.Second))
			n, err := ws.Read(buf)
			if err != nil {
				if errors.Is(err, server.ErrInvalWsMsgType) {
					errk = "type"
				} else if ne, ok := err.(net.Error); ok && ne.Timeout() {
					errk = "timeout"
				} else {
					errk = "eof"
				}
				if n != 0 {
					errk = "other"
				}
				break
			}
			chunks = append(chunks, B(buf[:n]))
		}
		plan.done <- L(K("chunks", chunks...), K("err", A(errk)))
	})
	go http.Serve(ln, mux)
}

func c18Run(in *Sx) *Sx {
	c18once.Do(c18server)
	id := fmt.Sprint(atomic.AddInt64(&c18seq, 1))
	plan := &c18plan{done: make(chan *Sx, 1)}
	for _, r := range in.Field("reads") {
		plan.reads = append(plan.reads, r.Int())
	}
	c18plans.Store(id, plan)
	defer c18plans.Delete(id)
	c, _, err := websocket.DefaultDialer.Dial("ws://"+c18addr+"/?id="+id, nil)
	if err != nil {
		return L(K("chunks"), K("err", A("dial")))
	}
	for _, m := range in.Field("msgs") {
		t := websocket.BinaryMessage
		if m.List[0].Atom == "t" {
			t = websocket.TextMessage
		}
		if err := c.WriteMessage(t, m.List[1].Bytes()); err != nil {
			break
		}
	}
	c.WriteControl(websocket.CloseMessage, websocket.FormatCloseMessage(websocket.CloseNormalClosure, ""), time.Now().Add(time.Second))
	// half-close so that the server sees end of stream after the last message
	if tc, ok := c.UnderlyingConn().(*net.TCPConn); ok {
		tc.CloseWrite()
	}
	var obs *Sx
	select {
	case obs = <-plan.done:
	case <-time.After(4 * time.Second):
		obs = L(K("chunks"), K("err", A("hang")))
	}
	c.Close()
	return obs
}

var c18sizes = []int{0, 1, 1, 2, 3, 5, 17, 100, 511, 1022, 1023, 1024, 1025, 1026, 2047, 2048, 2049, 3000}
var c18reads = []int{0, 1, 1, 2, 3, 7, 64, 512, 1023, 1024, 1024, 1024, 1025, 4096}

func c18Gen(r *Rng, i int) *Sx {
	nm := r.Range(0, 5)
	msgs := []*Sx{}
	total := 0
	for k := 0; k < nm; k++ {
		sz := Pick(r, c18sizes)
		if r.Chance(1, 4) {
			sz = r.Range(0, 40)
		}
		ty := "b"
		if r.Chance(1, 25) {
			ty = "t"
		}
		p := r.Bytes(sz)
		if ty == "t" { // gorilla validates UTF-8 of text frames: keep ASCII
			for j := range p {
				p[j] = 'a' + p[j]%26
			}
		}
		msgs = append(msgs, L(A(ty), B(p)))
		total += sz
	}
	reads := []*Sx{}
	mode := r.Intn(4)
	// simulate an ideal stream to know when everything has been consumed
	sizes := []int{}
	for _, m := range msgs {
		sizes = append(sizes, len(m.List[1].Bytes()))
	}
	mi, off := 0, 0
	stopEarly := r.Chance(1, 4)
	limit := r.Range(0, 6)
	extra := r.Range(1, 3)
	for k := 0; k < 3000; k++ {
		if stopEarly && k >= limit {
			break
		}
		if mi >= len(sizes) {
			if extra == 0 {
				break
			}
			extra--
		}
		var p int
		switch mode {
		case 0:
			p = 1024 // what bufio asks for
		case 1:
			p = Pick(r, c18reads)
		case 2:
			p = r.Range(1, 9)
			if mi < len(sizes) && sizes[mi]-off > 64 {
				p = Pick(r, c18reads)
			}
		default:
			if r.Bool() {
				p = 1024
			} else {
				p = Pick(r, c18reads)
			}
		}
		reads = append(reads, I(p))
		if mi < len(sizes) {
			n := sizes[mi] - off
			if p < n {
				n = p
			}
			off += n
			if off >= sizes[mi] {
				mi++
				off = 0
			}
		}
	}
	return L(K("msgs", msgs...), K("reads", reads...))
}

func init() { register(&Suite{Name: "c18", Gen: c18Gen, Run: c18Run}) }
