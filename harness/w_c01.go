package main

// Suite w_c01: scenario family for property C01 (PUBLISH reaches exactly the matching subscribers,
// at the right QoS, in order). Runner and scenario format: wire_runner.go / WIRE.md.
//
// THE FAMILY. 2-4 clients with pairwise different client ids (MQTT 3.1 / 3.1.1 / 5) connect with
// clean start and keep alive 0 and stay connected to the end of the scenario (a client may join
// late). They SUBSCRIBE / re-SUBSCRIBE / UNSUBSCRIBE non-shared filters with every combination of
// QoS x NoLocal x Retain-As-Published x Retain-Handling x subscription identifier, PUBLISH
// (topic x QoS x RETAIN x application properties, empty and 2-byte-length payloads, inbound topic
// aliases, DUP=1 on a packet id the broker does not hold, packet ids of completed publishes used
// again, a QoS 1 PUBLISH sent once more (a new delivery), retransmission of an unreleased QoS 2
// PUBLISH (not a new message)), complete their own QoS 2 publishes with PUBREL,
// and acknowledge what the broker sent them with the CORRECT acknowledgement only (PUBACK for a
// QoS 1 delivery, PUBREC and later PUBCOMP for a QoS 2 delivery, reason code 0) - or do not
// acknowledge at all, so that the flow-control window (min(max_inflight, client Receive Maximum))
// fills up and later messages wait. The in-process Publisher API publishes as well. An OnSubscribe
// hook changes granted QoS levels or rejects filters in a quarter of the scenarios. Both delivery
// modes. The clock advances by a few seconds at most. One scenario in 30 is a "burst": more than 100
// QoS 1 copies for one client that does not acknowledge, against the default window of 100.
//
// DELIBERATELY EXCLUDED (so that the expectation is computable exactly from the statement): every
// documented drop condition (max_queued is 1000, lifetimes are >= 60 s against < 14 s of advances,
// no client Maximum Packet Size below 100000), shared subscriptions, disconnects / take-overs /
// session resumption / wills, malformed or protocol-violating packets, wrong acknowledgements,
// negative acknowledgement codes, msg_arrived hooks, two entries with the same filter in one SUBSCRIBE.
// Every step is followed by the runner's quiescence barrier, so publishes of different connections
// are interleaved in all orders but never truly concurrent.
//
// The generator keeps a small model of its own (who is subscribed to what, what sits behind a full
// window) ONLY to be able to emit acknowledgements of the right kind with `(rx K)`; where the kind
// of the K-th delivery cannot be known (copies of one message at QoS 1 and 2 for one client arrive
// in map order) it does not acknowledge that delivery. The oracle (ocaml/o_c01.ml) does not rely on
// this model; it re-checks family membership from the observation.

import (
	"sort"
	"strings"

	"github.com/DrmagicE/gmqtt"
	"github.com/DrmagicE/gmqtt/pkg/packets"
)

type c01Sub struct {
	qos     int
	nl, rap bool
	sid     int
}

type c01Item struct {
	qos int
	unk bool
}

type c01Rx struct {
	qos   int
	unk   bool
	state int // 0 delivered, 1 PUBREC sent, 2 done
}

type c01Q2 struct {
	pid   int
	pkt   *Sx
	topic string
}

type c01Sock struct {
	label, ver int
	cid        string
	conn       bool
	limit      int
	subs       map[string]*c01Sub
	queue      []c01Item
	rx         []c01Rx
	out        int
	nextPid    int
	q2         []c01Q2
	alias      map[int]string
	free       []int   // packet ids of completed publishes (QoS 1 acknowledged, QoS 2 released): may be used again
	last1      *c01Re1 // the last QoS 1 PUBLISH, for a re-send with DUP=1 (at-least-once: a new delivery)
}

type c01Re1 struct {
	pkt            *Sx
	topic, payload string
	retain         bool
}

type c01Ret struct{ qos int }

var c01Topics = []string{"a", "a", "a", "b", "a/b", "a/b", "a/a", "b/a", "a/b/c", "$s/x", "/", "a/", "/a"}
var c01Filters = []string{"a", "a", "b", "a/b", "+", "a/+", "#", "#", "a/#", "+/b", "+/+", "b/#", "$s/#", "$s/+", "+/#",
	"a/b/#", "a/+/c", "/#", "/+", "+/", "a/b/c", "+/+/+", "$s/x"}

func c01Match(filter, topic string) bool {
	fl := strings.Split(filter, "/")
	tl := strings.Split(topic, "/")
	if strings.HasPrefix(topic, "$") && (fl[0] == "+" || fl[0] == "#") {
		return false
	}
	for i, f := range fl {
		if f == "#" {
			return true
		}
		if i >= len(tl) {
			return false
		}
		if f != "+" && f != tl[i] {
			return false
		}
	}
	return len(fl) == len(tl)
}

func c01Cfg(r *Rng, burst bool) (*Sx, int, int, bool) {
	maxInflight := Pick(r, []int{100, 100, 100, 1, 2, 3})
	if burst {
		maxInflight = 100
	}
	aliasMax := Pick(r, []int{10, 10, 2, 0})
	onlyonce := r.Bool()
	mode := "overlap"
	if onlyonce {
		mode = "onlyonce"
	}
	return K("cfg",
		K("delivery", A(mode)),
		K("max_inflight", I(maxInflight)), K("max_queued", I(1000)),
		K("queue_qos0", Bool(!r.Chance(1, 4))),
		K("session_expiry", I(7200)),
		K("message_expiry", I(Pick(r, []int{7200, 7200, 60, 0}))),
		K("recv_max", I(100)),
		K("alias_max", I(aliasMax)),
		K("max_packet", I(268435456)), K("max_qos", I(2)),
		K("retain_avail", Bool(true)), K("wildcard", Bool(true)), K("subid", Bool(true)), K("shared", Bool(true)),
		K("max_keepalive", I(300)), K("allow_zero_len", Bool(true)), K("inflight_expiry", I(30))), maxInflight, aliasMax, onlyonce
}

// application properties of a v5 PUBLISH (lifetimes far beyond the scenario's clock advances)
func c01PubProps(r *Rng) []*Sx {
	var ps []*Sx
	if r.Chance(1, 5) {
		ps = append(ps, K("msgexpiry", I(Pick(r, []int{60, 100000, 7300}))))
	}
	if r.Chance(1, 6) {
		ps = append(ps, K("pfmt", I(r.Intn(2))))
	}
	if r.Chance(1, 6) {
		ps = append(ps, K("ctype", S(Pick(r, []string{"t", "text/plain"}))))
	}
	if r.Chance(1, 6) {
		ps = append(ps, K("resp", S(Pick(r, []string{"r", "a/b"}))))
	}
	if r.Chance(1, 6) {
		ps = append(ps, K("corr", S(Pick(r, []string{"c", "corr"}))))
	}
	for r.Chance(1, 6) {
		ps = append(ps, K("user", S(Pick(r, []string{"k", "key"})), S(Pick(r, []string{"v", "", "w"}))))
	}
	return ps
}

func c01Gen(r *Rng, i int) *Sx {
	// burst scenarios (1 in 30): more than 100 QoS 1 copies for one client that does not acknowledge, so that the
	// default window of 100 fills up (the broker fetches packet ids in batches of at most 100)
	burst := r.Chance(1, 30)
	cfg, maxInflight, aliasMax, onlyonce := c01Cfg(r, burst)
	nsock := r.Range(2, 4)
	socks := make([]*c01Sock, nsock)
	for k := range socks {
		socks[k] = &c01Sock{label: k + 1, ver: Pick(r, []int{4, 4, 5, 5, 5, 5, 3}), cid: "c" + string(rune('1'+k))}
	}
	// OnSubscribe hook rules: at most one per (client, filter)
	type hk struct{ cid, f string }
	hookQos := map[hk]int{} // -1 = reject
	var hookRules []*Sx
	if !burst && r.Chance(1, 4) {
		for k := 0; k < r.Range(1, 6); k++ {
			key := hk{Pick(r, socks).cid, Pick(r, c01Filters)}
			if _, dup := hookQos[key]; dup {
				continue
			}
			if r.Chance(1, 4) {
				hookQos[key] = -1
				hookRules = append(hookRules, L(S(key.cid), S(key.f), K("reject", I(Pick(r, []int{135, 128, 151})))))
			} else {
				q := Pick(r, []int{0, 0, 1, 1, 2})
				hookQos[key] = q
				hookRules = append(hookRules, L(S(key.cid), S(key.f), K("qos", I(q))))
			}
		}
	}
	retained := map[string]*c01Ret{}
	var steps []*Sx
	add := func(x *Sx) { steps = append(steps, x) }
	npay := 0
	lastPay := "m0"

	flush := func(s *c01Sock) {
		for len(s.queue) > 0 && s.out < s.limit {
			it := s.queue[0]
			s.queue = s.queue[1:]
			if it.qos > 0 || it.unk {
				s.out++
				s.rx = append(s.rx, c01Rx{qos: it.qos, unk: it.unk})
			}
		}
	}
	// enqueue one group of copies (their order on the wire is not known)
	enqueue := func(s *c01Sock, qs []int) {
		has1, has2 := false, false
		for _, q := range qs {
			if q == 1 {
				has1 = true
			}
			if q == 2 {
				has2 = true
			}
		}
		mixed := has1 && has2
		for _, q := range qs { // QoS>0 first: only their number matters for (rx K)
			if q > 0 {
				s.queue = append(s.queue, c01Item{qos: q, unk: mixed})
			}
		}
		for _, q := range qs {
			if q == 0 {
				s.queue = append(s.queue, c01Item{qos: 0})
			}
		}
		flush(s)
	}
	deliver := func(src *c01Sock, topic string, qos int) {
		for _, s := range socks {
			if !s.conn {
				continue
			}
			var qs []int
			best := -1
			for _, f := range c01Keys(s.subs) {
				sub := s.subs[f]
				if !c01Match(f, topic) || (sub.nl && s == src) {
					continue
				}
				q := min(qos, sub.qos)
				if onlyonce {
					if sub.qos > best {
						best = sub.qos
					}
				} else {
					qs = append(qs, q)
				}
			}
			if onlyonce && best >= 0 {
				qs = []int{min(qos, best)}
			}
			if len(qs) > 0 {
				enqueue(s, qs)
			}
		}
	}
	connect := func(s *c01Sock) {
		items := []*Sx{A("connect"), I(s.label), I(s.ver), K("cid", S(s.cid)), K("clean", Bool(r.Chance(3, 4))), K("keepalive", I(0))}
		s.limit = maxInflight
		var props []*Sx
		if s.ver == 5 {
			if r.Chance(1, 2) {
				props = append(props, K("sei", I(Pick(r, []int{0, 30, 100000}))))
			}
			if r.Chance(1, 3) {
				rm := Pick(r, []int{1, 2, 5, 65535})
				props = append(props, K("recvmax", I(rm)))
				if rm < s.limit {
					s.limit = rm
				}
			}
			if r.Chance(1, 3) {
				props = append(props, K("aliasmax", I(Pick(r, []int{1, 2, 10}))))
			}
			if r.Chance(1, 8) {
				props = append(props, K("maxpkt", I(100000)))
			}
		}
		items = append(items, K("props", props...))
		s.conn, s.subs, s.alias = true, map[string]*c01Sub{}, map[int]string{}
		s.nextPid = Pick(r, []int{1, 1, 1, 100, 65530})
		add(L(items...))
	}
	pid := func(s *c01Sock) int {
		p := s.nextPid
		s.nextPid++
		if s.nextPid > 65535 {
			s.nextPid = 1
		}
		return p
	}
	subscribe := func(s *c01Sock) {
		sid := 0
		var props []*Sx
		if s.ver == 5 && r.Chance(1, 2) {
			sid = Pick(r, []int{1, 2, 3, 3, 268435455})
			props = append(props, K("subid", I(sid)))
		}
		items := []*Sx{A("subscribe"), I(pid(s)), K("props", props...)}
		seen := map[string]bool{}
		var replay []int
		for k := 0; k < Pick(r, []int{1, 1, 2, 3}); k++ {
			f := Pick(r, c01Filters)
			if len(s.subs) > 0 && r.Chance(1, 6) { // re-subscribe: replace the options
				f = Pick(r, c01Keys(s.subs))
			}
			if seen[f] {
				continue
			}
			seen[f] = true
			q := r.Intn(3)
			nl, rap, rh := false, false, 0
			if s.ver == 5 {
				nl, rap, rh = r.Chance(1, 3), r.Chance(1, 2), Pick(r, []int{0, 0, 1, 2})
			}
			items = append(items, L(A("t"), S(f), I(q), Bool(nl), Bool(rap), I(rh)))
			granted := q
			if h, ok := hookQos[hk{s.cid, f}]; ok {
				granted = h
			}
			if granted < 0 {
				continue
			}
			_, existed := s.subs[f]
			s.subs[f] = &c01Sub{qos: granted, nl: nl, rap: rap, sid: sid}
			if rh == 0 || (rh == 1 && !existed) {
				for _, t := range c01Keys(retained) {
					m := retained[t]
					if c01Match(f, t) {
						replay = append(replay, min(m.qos, granted))
					}
				}
			}
		}
		add(L(A("send"), I(s.label), L(items...)))
		if len(replay) > 0 {
			enqueue(s, replay)
		}
	}
	publish := func(s *c01Sock) {
		qos := r.Intn(3)
		p := 0
		if qos > 0 {
			if len(s.free) > 0 && r.Chance(1, 3) {
				k := r.Intn(len(s.free))
				p = s.free[k]
				s.free = append(s.free[:k], s.free[k+1:]...)
			} else {
				p = pid(s)
			}
		}
		topic := Pick(r, c01Topics)
		wire := topic
		var props []*Sx
		if s.ver == 5 {
			props = c01PubProps(r)
			if aliasMax > 0 && r.Chance(1, 5) {
				a := r.Range(1, min(aliasMax, 3))
				if t, ok := s.alias[a]; ok && r.Bool() {
					topic, wire = t, ""
				} else {
					s.alias[a] = topic
				}
				props = append(props, K("alias", I(a)))
			}
		}
		npay++
		payload := "m" + c01Itoa(npay)
		if r.Chance(1, 8) {
			payload = lastPay // the same application message content once more
		}
		lastPay = payload
		if r.Chance(1, 15) {
			payload += strings.Repeat("p", Pick(r, []int{125, 150, 300})) // remaining length of two bytes
		}
		retain := r.Chance(1, 3)
		if retain && r.Chance(1, 5) {
			payload = ""
		}
		// DUP=1 on a packet id the broker does not hold: to the broker a new message
		pkt := L(A("publish"), Bool(qos > 0 && r.Chance(1, 10)), I(qos), Bool(retain), S(wire), S(payload), I(p), K("props", props...))
		add(L(A("send"), I(s.label), pkt))
		if retain {
			if payload == "" {
				delete(retained, topic)
			} else {
				retained[topic] = &c01Ret{qos: qos}
			}
		}
		if qos == 2 {
			dupPkt := L(A("publish"), Bool(true), I(qos), Bool(retain), S(wire), S(payload), I(p), K("props", props...))
			s.q2 = append(s.q2, c01Q2{p, dupPkt, topic})
		}
		if qos == 1 {
			s.free = append(s.free, p)
			s.last1 = &c01Re1{L(A("publish"), Bool(true), I(qos), Bool(retain), S(wire), S(payload), I(p), K("props", props...)), topic, payload, retain}
		}
		deliver(s, topic, qos)
	}
	// the topic a re-sent packet resolves to now (its alias may have been re-registered meanwhile)
	reAlias := func(s *c01Sock, pkt *Sx) string {
		wire := pkt.List[4].Str()
		for _, pr := range pkt.List[7].List[1:] {
			if pr.List[0].Atom == "alias" {
				a := pr.List[1].Int()
				if wire == "" {
					return s.alias[a]
				}
				s.alias[a] = wire
			}
		}
		return wire
	}
	resend1 := func(s *c01Sock) {
		m := s.last1
		if m == nil {
			return
		}
		for _, f := range s.free { // only while its packet id has not been taken by another publish
			if f == m.pkt.List[6].Int() {
				if m.pkt.List[4].Str() == "" && reAlias(s, m.pkt) != m.topic {
					return
				}
				reAlias(s, m.pkt)
				add(L(A("send"), I(s.label), m.pkt))
				if m.retain {
					if m.payload == "" {
						delete(retained, m.topic)
					} else {
						retained[m.topic] = &c01Ret{qos: 1}
					}
				}
				deliver(s, m.topic, 1)
				return
			}
		}
	}
	ack := func(s *c01Sock) bool {
		var cand []int
		for k, e := range s.rx {
			if !e.unk && e.state != 2 {
				cand = append(cand, k)
			}
		}
		if len(cand) == 0 {
			return false
		}
		k := cand[0]
		if r.Chance(1, 3) {
			k = Pick(r, cand)
		}
		e := &s.rx[k]
		switch {
		case e.qos == 1:
			add(L(A("send"), I(s.label), L(A("puback"), wireRx(k), I(0), K("props"))))
			e.state = 2
			s.out--
			flush(s)
		case e.state == 0:
			add(L(A("send"), I(s.label), L(A("pubrec"), wireRx(k), I(0), K("props"))))
			e.state = 1
		default:
			add(L(A("send"), I(s.label), L(A("pubcomp"), wireRx(k), I(0), K("props"))))
			e.state = 2
			s.out--
			flush(s)
		}
		return true
	}

	connect(socks[0])
	if r.Chance(3, 4) {
		subscribe(socks[0])
	}
	connect(socks[1])
	if r.Chance(3, 4) {
		subscribe(socks[1])
	}
	n := r.Range(8, 40)
	if burst {
		n = r.Range(8, 20)
		sub, pub := socks[0], socks[1]
		items := []*Sx{A("subscribe"), I(pid(sub)), K("props")}
		fs := []string{"a", "+", "#", "a/#"}
		if onlyonce {
			fs = fs[:r.Range(1, 2)]
		}
		rh := 0
		if sub.ver == 5 {
			rh = 2
		}
		for _, f := range fs {
			items = append(items, L(A("t"), S(f), I(1), Bool(false), Bool(false), I(rh)))
			sub.subs[f] = &c01Sub{qos: 1}
		}
		add(L(A("send"), I(sub.label), L(items...)))
		m := r.Range(26, 45)
		if onlyonce {
			m = r.Range(101, 125)
		}
		for k := 0; k < m; k++ {
			qos := r.Range(1, 2)
			p := pid(pub)
			npay++
			add(L(A("send"), I(pub.label), L(A("publish"), Bool(false), I(qos), Bool(false), S("a"), S("m"+c01Itoa(npay)), I(p), K("props"))))
			if qos == 2 {
				add(L(A("send"), I(pub.label), L(A("pubrel"), I(p), I(0), K("props"))))
			}
			pub.free = append(pub.free, p)
			deliver(pub, "a", qos)
		}
	}
	nadv := 0
	for k := 0; k < n; k++ {
		s := Pick(r, socks)
		if !s.conn {
			if r.Chance(1, 2) {
				connect(s)
				if r.Chance(3, 4) {
					subscribe(s)
				}
			}
			continue
		}
		switch x := r.Intn(100); {
		case x < 20:
			subscribe(s)
		case x < 25:
			f := Pick(r, c01Filters)
			if len(s.subs) > 0 && r.Chance(3, 4) {
				f = Pick(r, c01Keys(s.subs))
			}
			add(L(A("send"), I(s.label), L(A("unsubscribe"), I(pid(s)), K("props"), S(f))))
			delete(s.subs, f)
		case x < 63:
			publish(s)
		case x < 83:
			if !ack(s) {
				for _, o := range socks {
					if o.conn && ack(o) {
						break
					}
				}
			}
		case x < 88:
			if len(s.q2) > 0 {
				add(L(A("send"), I(s.label), L(A("pubrel"), I(s.q2[0].pid), I(0), K("props"))))
				s.free = append(s.free, s.q2[0].pid)
				s.q2 = s.q2[1:]
			}
		case x < 90:
			if len(s.q2) > 0 && r.Chance(2, 3) {
				m := Pick(r, s.q2)
				if m.pkt.List[4].Str() != "" || reAlias(s, m.pkt) == m.topic {
					reAlias(s, m.pkt)
					add(L(A("send"), I(s.label), m.pkt)) // retransmission before PUBREL: not a new application message
				}
			} else {
				resend1(s)
			}
		case x < 96:
			topic := Pick(r, c01Topics)
			qos := r.Intn(3)
			npay++
			payload := "m" + c01Itoa(npay)
			if r.Chance(1, 10) {
				payload = ""
			}
			m := &gmqtt.Message{Dup: r.Chance(1, 8), QoS: byte(qos), Retained: r.Chance(1, 3), Topic: topic, Payload: []byte(payload)}
			if r.Chance(1, 3) {
				m.ContentType = Pick(r, []string{"", "t", "text/plain"})
				if r.Bool() {
					m.CorrelationData = []byte(Pick(r, []string{"c", "corr"}))
				}
				m.MessageExpiry = uint32(Pick(r, []int{0, 60, 100000}))
				m.PayloadFormat = byte(r.Intn(2))
				m.ResponseTopic = Pick(r, []string{"", "r", "resp/x"})
				for k := 0; k < r.Intn(3); k++ {
					m.UserProperties = append(m.UserProperties, packets.UserProperty{K: []byte(Pick(r, []string{"k", "key"})), V: []byte(Pick(r, []string{"v", "", "w"}))})
				}
			}
			add(L(A("api_publish"), sxMsg(m)))
			deliver(nil, topic, qos)

		default:
			if nadv < 6 {
				nadv++
				add(L(A("advance"), I(Pick(r, []int{300, 1300, 2300}))))
			}
		}
	}
	// drain: acknowledge what can be acknowledged so that windows open once more
	for k := 0; k < 4; k++ {
		for _, s := range socks {
			if s.conn && r.Chance(1, 2) {
				ack(s)
			}
		}
	}
	add(L(A("inspect")))
	top := []*Sx{cfg}
	if len(hookRules) > 0 {
		top = append(top, K("hooks", K("subscribe", hookRules...)))
	}
	top = append(top, K("steps", steps...))
	return L(top...)
}

func c01Itoa(n int) string { return I(n).Atom }

func c01Keys[V any](m map[string]V) []string {
	ks := make([]string, 0, len(m))
	for k := range m {
		ks = append(ks, k)
	}
	sort.Strings(ks)
	return ks
}

func init() { register(&Suite{Name: "w_c01", Gen: c01Gen, Run: wireRun, Par: 1}) }
