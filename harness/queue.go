package main

import (
	"strconv"
	"time"

	"github.com/DrmagicE/gmqtt"
	"github.com/DrmagicE/gmqtt/persistence/queue"
	qmem "github.com/DrmagicE/gmqtt/persistence/queue/mem"
	"github.com/DrmagicE/gmqtt/pkg/packets"
)

// Suite queue: operation histories on the real mem.Queue with a recording notifier.
// Model time is in ms with base qT0; the implementation runs on the wall clock and time
// passes only through VerifShift.

const qT0 = uint64(1000000000000)

type qRecorder struct{ evs []*Sx }

func dropReason(err error) string {
	switch err {
	case queue.ErrDropQueueFull:
		return "full"
	case queue.ErrDropExpired:
		return "expired"
	case queue.ErrDropExpiredInflight:
		return "expired_inflight"
	case queue.ErrDropExceedsMaxPacketSize:
		return "exceeds"
	}
	return "other"
}

func elemTag(e *queue.Elem) *Sx {
	switch m := e.MessageWithID.(type) {
	case *queue.Publish:
		p := m.Payload
		i := 0
		for i < len(p) && p[i] >= '0' && p[i] <= '9' {
			i++
		}
		n, _ := strconv.Atoi(string(p[:i]))
		return I(n)
	}
	return I(0)
}

type qCtx struct {
	start time.Time
	shift time.Duration
}

// model-time expiry in whole seconds (rounded: scheduling jitter is far below 0.5 s), 0 = none
func (c *qCtx) expirySec(e *queue.Elem) *Sx {
	if e.Expiry.IsZero() {
		return A("none")
	}
	d := e.Expiry.Sub(c.start) + c.shift
	ms := int64(qT0) + d.Milliseconds()
	return U(uint64((ms + 500) / 1000))
}

func (c *qCtx) sxElem(e *queue.Elem) *Sx {
	switch m := e.MessageWithID.(type) {
	case *queue.Publish:
		return L(A("pub"), elemTag(e), I(int(m.PacketID)), I(int(m.QoS)), c.expirySec(e))
	case *queue.Pubrel:
		return L(A("rel"), I(int(m.PacketID)), c.expirySec(e))
	}
	return A("?")
}

func (r *qRecorder) NotifyDropped(elem *queue.Elem, err error) {
	r.evs = append(r.evs, L(A("dropped"), elemTag(elem), A(dropReason(err))))
}
func (r *qRecorder) NotifyInflightAdded(delta int) { r.evs = append(r.evs, L(A("inflight"), I(delta))) }
func (r *qRecorder) NotifyMsgQueueAdded(delta int) { r.evs = append(r.evs, L(A("queue"), I(delta))) }
func (r *qRecorder) take() []*Sx                   { e := r.evs; r.evs = nil; return e }

func (c *qCtx) implTime(ms uint64) time.Time {
	return c.start.Add(time.Duration(int64(ms)-int64(qT0))*time.Millisecond - c.shift)
}

func (c *qCtx) elemOfSx(x *Sx) *queue.Elem {
	// (e tag at expiry|none (pub msg)|(rel pid))
	e := &queue.Elem{At: c.implTime(x.List[2].Uint())}
	if x.List[3].Atom != "none" {
		e.Expiry = c.implTime(x.List[3].Uint())
	}
	b := x.List[4]
	if b.List[0].Atom == "pub" {
		e.MessageWithID = &queue.Publish{Message: msgOfSx(b.List[1])}
	} else {
		e.MessageWithID = &queue.Pubrel{PacketID: packets.PacketID(b.List[1].Int())}
	}
	return e
}

func queueRun(in *Sx) (out *Sx) {
	rec := &qRecorder{}
	max := in.Field1("max").Int()
	ifexp := time.Duration(in.Field1("ifexp").Uint()) * time.Millisecond
	q, _ := qmem.New(qmem.Options{MaxQueuedMsg: max, InflightExpiry: ifexp, ClientID: "c", DefaultNotifier: rec})
	ctx := &qCtx{start: time.Now()}
	outs := []*Sx{}
	defer func() {
		if e := recover(); e != nil {
			outs = append(outs, L(A("panic")))
			out = L(K("outs", outs...))
		}
	}()
	for _, o := range in.Field("ops") {
		switch o.List[0].Atom {
		case "shift":
			d := time.Duration(o.List[1].Uint()) * time.Millisecond
			q.VerifShift(d)
			ctx.shift += d
			outs = append(outs, L(A("unit")))
		case "add":
			q.Add(ctx.elemOfSx(o.List[2]))
			outs = append(outs, L(append([]*Sx{A("add")}, rec.take()...)...))
		case "read":
			pids := []packets.PacketID{}
			for _, p := range o.List[2].List {
				pids = append(pids, packets.PacketID(p.Int()))
			}
			var res *Sx
			func() {
				// a panic inside Read leaves its mutex locked: nothing may touch the queue afterwards
				if !qReadPanics(q) && q.VerifReadWouldBlock() {
					res = L(A("blocked"))
					return
				}
				rs, err := q.Read(pids)
				if err == queue.ErrClosed {
					res = L(A("closed"))
					return
				}
				els := []*Sx{}
				for _, e := range rs {
					els = append(els, ctx.sxElem(e))
				}
				res = L(A("read"), L(els...), L(rec.take()...))
			}()
			outs = append(outs, res)
		case "readinflight":
			rs, _ := q.ReadInflight(uint(o.List[2].Int()))
			els := []*Sx{}
			for _, e := range rs {
				els = append(els, ctx.sxElem(e))
			}
			outs = append(outs, L(A("readinflight"), L(els...)))
		case "remove":
			q.Remove(packets.PacketID(o.List[1].Int()))
			outs = append(outs, L(append([]*Sx{A("remove")}, rec.take()...)...))
		case "replace":
			ok, _ := q.Replace(ctx.elemOfSx(o.List[1]))
			outs = append(outs, L(A("replace"), Bool(ok)))
		case "init":
			q.Init(&queue.InitOptions{CleanStart: o.List[1].Bool(), Version: map[bool]packets.Version{true: packets.Version5, false: packets.Version311}[o.List[2].Bool()],
				ReadBytesLimit: uint32(o.List[3].Uint()), Notifier: rec})
			outs = append(outs, L(A("unit")))
		case "close":
			q.Close()
			outs = append(outs, L(A("unit")))
		}
	}
	return L(K("outs", outs...))
}

// Read panics before anything else when the in-flight entries have not been drained.
func qReadPanics(q *qmem.Queue) bool { return !q.VerifDrained() }

func genElem(r *Rng, tag int, now uint64) *Sx {
	exp := A("none")
	switch r.Intn(6) {
	case 0:
		exp = U(now - 7200000)
	case 1:
		exp = U(now + 3600000)
	case 2:
		exp = U(now + 3*3600000)
	}
	m := &gmqtt.Message{QoS: byte(Pick(r, []int{0, 1, 1, 2})), Topic: "t", Payload: []byte(strconv.Itoa(tag))}
	if r.Chance(1, 6) {
		m.Payload = append(m.Payload, make([]byte, r.Range(20, 40))...)
		for i := len(strconv.Itoa(tag)); i < len(m.Payload); i++ {
			m.Payload[i] = '.'
		}
	}
	if r.Chance(1, 8) {
		m.ContentType = "ct"
		m.UserProperties = []packets.UserProperty{{K: []byte("k"), V: []byte("vv")}}
	}
	return L(A("e"), I(tag), U(now), exp, L(A("pub"), sxMsg(m)))
}

func queueGen(r *Rng, i int) *Sx {
	max := r.Range(1, 6)
	ifexp := uint64(Pick(r, []int{0, 0, 1800000}))
	now := qT0
	ops := []*Sx{}
	tag := 0
	nextPid := 1
	inflight := []int{} // pids believed in flight (approximate, only guides generation)
	limit := Pick(r, []int{30, 40, 1000, 1000, 1000})
	ops = append(ops, L(A("init"), Bool(true), Bool(r.Bool()), I(limit)))
	ops = append(ops, L(A("readinflight"), U(now), I(10)))
	n := r.Range(3, 40)
	for k := 0; k < n; k++ {
		switch x := r.Intn(100); {
		case x < 40:
			tag++
			ops = append(ops, L(A("add"), U(now), genElem(r, tag, now)))
		case x < 60:
			np := r.Range(0, 4)
			pids := []*Sx{}
			for j := 0; j < np; j++ {
				pids = append(pids, I(nextPid))
				inflight = append(inflight, nextPid)
				nextPid++
			}
			ops = append(ops, L(A("read"), U(now), L(pids...)))
		case x < 70:
			ops = append(ops, L(A("readinflight"), U(now), I(r.Range(0, 5))))
		case x < 80:
			p := r.Range(1, nextPid)
			if len(inflight) > 0 && r.Chance(3, 4) {
				p = Pick(r, inflight)
			}
			ops = append(ops, L(A("remove"), I(p)))
		case x < 86:
			p := r.Range(1, nextPid)
			if len(inflight) > 0 && r.Chance(3, 4) {
				p = Pick(r, inflight)
			}
			exp := A("none")
			if r.Chance(1, 3) {
				exp = U(now + 3600000)
			}
			ops = append(ops, L(A("replace"), L(A("e"), I(0), U(now), exp, L(A("rel"), I(p)))))
		case x < 92:
			clean := r.Chance(1, 4)
			ops = append(ops, L(A("init"), Bool(clean), Bool(r.Bool()), I(limit)))
			if clean {
				inflight = nil
			}
			if r.Chance(4, 5) { // a well-behaved caller drains the in-flight entries first
				ops = append(ops, L(A("readinflight"), U(now), I(r.Range(1, 10))))
				if r.Chance(3, 4) {
					ops = append(ops, L(A("readinflight"), U(now), I(10)))
				}
			}
		case x < 97:
			d := uint64(Pick(r, []int{1000, 2 * 3600000, 2 * 3600000, 601000})) // never a sum that equals the 1 800 000 ms in-flight expiry or a message lifetime exactly (the queue reads the real clock)
			now += d
			ops = append(ops, L(A("shift"), U(d)))
		default:
			ops = append(ops, L(A("close")))
			if r.Chance(3, 4) {
				ops = append(ops, L(A("init"), Bool(false), Bool(r.Bool()), I(limit)))
				ops = append(ops, L(A("readinflight"), U(now), I(10)))
				ops = append(ops, L(A("readinflight"), U(now), I(10)))
			}
		}
	}
	// epilogue: reconnect and drain everything, so that nothing can be lost silently
	ops = append(ops, L(A("init"), Bool(false), Bool(true), I(100000)))
	ops = append(ops, L(A("readinflight"), U(now), I(100)))
	ops = append(ops, L(A("readinflight"), U(now), I(100)))
	pids := []*Sx{}
	for j := 0; j < 12; j++ {
		pids = append(pids, I(60000+j))
	}
	ops = append(ops, L(A("read"), U(now), L(pids...)))
	ops = append(ops, L(A("read"), U(now), L(pids...)))
	return L(K("max", I(max)), K("ifexp", U(ifexp)), K("ops", ops...))
}

func init() { register(&Suite{Name: "queue", Gen: queueGen, Run: queueRun}) }
