package main

// Suite c20r (C20): refused CONNECTs that claim the client id of a real session.  "Per client, packets and bytes
// received/sent equal what was exchanged on that client's connections": a connection that was refused never was
// a connection of that client, so the per-client counters of the id must show the one accepted CONNECT / CONNACK
// of its own connection and nothing of the K refused ones.
//
//	input : ((v 4|5) (k N) (order before|after))   refusals before the real session connects, or while it is online
//	output: ((connect_rx N) (connack_tx N) (refused N))

import (
	"context"
	"net"
	"time"

	"github.com/DrmagicE/gmqtt/config"
	"github.com/DrmagicE/gmqtt/pkg/packets"
	"github.com/DrmagicE/gmqtt/server"
)

func c20rConnect(addr string, v byte, id string, authMethod bool) (net.Conn, int) {
	c, err := net.Dial("tcp", addr)
	if err != nil {
		return nil, -1
	}
	name := "MQTT"
	if v == packets.Version31 {
		name = "MQIsdp"
	}
	p := &packets.Connect{Version: v, ProtocolLevel: v, ProtocolName: []byte(name), CleanStart: true, ClientID: []byte(id)}
	if v == packets.Version5 {
		p.Properties = &packets.Properties{}
		if authMethod {
			p.Properties.AuthMethod = []byte("m")
		}
	}
	w := packets.NewWriter(c)
	if err := w.WriteAndFlush(p); err != nil {
		c.Close()
		return nil, -1
	}
	c.SetReadDeadline(time.Now().Add(2 * time.Second))
	r := packets.NewReader(c)
	r.SetVersion(v)
	pk, err := r.ReadPacket()
	if err != nil {
		c.Close()
		return nil, -2 // closed without CONNACK
	}
	if ack, ok := pk.(*packets.Connack); ok {
		return c, int(ack.Code)
	}
	c.Close()
	return nil, -3
}

func c20rRun(in *Sx) *Sx {
	v := byte(in.Field1("v").Int())
	k := in.Field1("k").Int()
	before := in.Field1("order").Atom == "before"
	cfg := config.DefaultConfig()
	cfg.API = config.API{}
	cfg.Listeners = nil
	ln, err := net.Listen("tcp", "127.0.0.1:0")
	if err != nil {
		panic(err)
	}
	srv := server.New(server.WithTCPListener(ln), server.WithConfig(cfg))
	go srv.Run()
	defer func() {
		ctx, cancel := context.WithTimeout(context.Background(), 5*time.Second)
		srv.Stop(ctx)
		cancel()
	}()
	addr := ln.Addr().String()
	for i := 0; i < 400; i++ { // until the accept loop runs
		if c, err := net.Dial("tcp", addr); err == nil {
			c.Close()
			break
		}
		time.Sleep(5 * time.Millisecond)
	}
	const id = "x1"
	refused := 0
	refuse := func() {
		for i := 0; i < k; i++ {
			c, code := c20rConnect(addr, packets.Version5, id, true)
			if c != nil && code == 0 {
				c.Close() // accepted: not a refusal (would be a finding of C19, not counted here)
				continue
			}
			if c != nil {
				c.Close()
			}
			refused++
		}
		time.Sleep(50 * time.Millisecond)
	}
	if before {
		refuse()
	}
	a, code := c20rConnect(addr, v, id, false)
	if a == nil || code != 0 {
		return L(K("harness_error", S("the real session was not accepted")))
	}
	defer a.Close()
	if !before {
		refuse()
	}
	// a PINGREQ round: everything the broker read before it has been counted when the PINGRESP is here
	w := packets.NewWriter(a)
	w.WriteAndFlush(&packets.Pingreq{})
	r := packets.NewReader(a)
	r.SetVersion(v)
	a.SetReadDeadline(time.Now().Add(2 * time.Second))
	r.ReadPacket()
	time.Sleep(20 * time.Millisecond)
	st, _ := srv.StatsManager().GetClientStats(id)
	return L(K("connect_rx", U(st.PacketStats.ReceivedTotal.Connect)), K("connack_tx", U(st.PacketStats.SentTotal.Connack)), K("refused", I(refused)))
}

func c20rGen(r *Rng, i int) *Sx {
	return L(K("v", I(Pick(r, []int{3, 4, 5}))), K("k", I(r.Range(1, 3))), K("order", A(Pick(r, []string{"before", "after"}))))
}

func init() { register(&Suite{Name: "c20r", Gen: c20rGen, Run: c20rRun, Par: 4}) }
