package main

// Suites on the redis persistence backend, run against the in-process RESP stand-in (resp.go):
//
//	rsub    subscription.Store histories on the redis-backed store (same input format, same
//	        live observables as suite sub) + the journal of storage commands + a restart:
//	        a fresh store loaded from the stand-in (sub.Init) answers the same queries
//	rqueue  queue histories on the redis queue (same vocabulary as suite queue, plus `restart` =
//	        a fresh Queue object on the same store, as server.init creates) + journal
//	runack  unack store histories incl. restart + journal
//	crash   broker level histories, every journal prefix, restart, inspection (redis_crash.go part
//	        of this file, below)
//
// No hook file in /repo: the redis stores are reached through their exported constructors; the
// private cursor fields of redis.Queue are read (and, for the clock shift, its read cache is
// rewritten) through reflect/unsafe.

import (
	"bufio"
	"context"
	"encoding/binary"
	"fmt"
	"io"
	"net"
	"os"
	"os/exec"
	"reflect"
	"runtime"
	"sort"
	"strings"
	"sync"
	"sync/atomic"
	"time"
	"unsafe"

	redigo "github.com/gomodule/redigo/redis"

	"github.com/DrmagicE/gmqtt"
	"github.com/DrmagicE/gmqtt/config"
	_ "github.com/DrmagicE/gmqtt/persistence"
	"github.com/DrmagicE/gmqtt/persistence/queue"
	rqueue "github.com/DrmagicE/gmqtt/persistence/queue/redis"
	"github.com/DrmagicE/gmqtt/persistence/subscription"
	rsubscription "github.com/DrmagicE/gmqtt/persistence/subscription/redis"
	runack "github.com/DrmagicE/gmqtt/persistence/unack/redis"
	"github.com/DrmagicE/gmqtt/pkg/packets"
	"github.com/DrmagicE/gmqtt/server"
	_ "github.com/DrmagicE/gmqtt/topicalias/fifo"
)

func respPool(addr string) *redigo.Pool {
	return &redigo.Pool{
		MaxIdle: 16,
		Dial: func() (redigo.Conn, error) {
			return redigo.Dial("tcp", addr)
		},
	}
}

func hasPrefix(b []byte, p string) bool { return len(b) >= len(p) && string(b[:len(p)]) == p }

// ---------------------------------------------------------------- journal in canonical form
//
//	(hset xKEY (xFIELD VAL)...)  (hdel xKEY xFIELD...)  (del xKEY...)  (rpush xKEY VAL...)
//	(lrem xKEY COUNT VAL)  (lset xKEY INDEX VAL)  (other xNAME xARG...)
//
// VAL is the stored byte string decoded with the implementation's own decoder according to the
// key family: sub:* -> (s ...) as sxSub; queue:* -> (e TAG AT EXP|none (pub MSG)|(rel PID)) with
// times in model milliseconds; anything else (and anything undecodable) -> the raw bytes xHEX.
func redisValSx(key, val []byte, ctx *qCtx) *Sx {
	switch {
	case hasPrefix(key, "sub:"):
		s, err := rsubscription.DecodeSubscription(val)
		if err != nil || s == nil {
			return B(val)
		}
		return sxSub(s)
	case hasPrefix(key, "queue:"):
		e := &queue.Elem{}
		if err := e.Decode(val); err != nil || e.MessageWithID == nil {
			return B(val)
		}
		return redisElemSx(e, ctx)
	}
	return B(val)
}

func (c *qCtx) modelMs(t time.Time) *Sx {
	if t.IsZero() {
		return A("none")
	}
	d := t.Sub(c.start) + c.shift
	return U(uint64(int64(qT0) + d.Milliseconds()))
}

func redisElemSx(e *queue.Elem, ctx *qCtx) *Sx {
	if ctx == nil {
		ctx = &qCtx{start: time.Unix(int64(qT0/1000), 0)}
	}
	var body *Sx
	switch m := e.MessageWithID.(type) {
	case *queue.Publish:
		body = L(A("pub"), sxMsg(m.Message))
	case *queue.Pubrel:
		body = L(A("rel"), I(int(m.PacketID)))
	}
	return L(A("e"), elemTag(e), ctx.modelMs(e.At), ctx.modelMs(e.Expiry), body)
}

func redisCmdSx(c respCmd, ctx *qCtx) *Sx {
	name := string(c[0])
	a := c[1:]
	lower := func() string {
		b := []byte(name)
		for i := range b {
			if b[i] >= 'A' && b[i] <= 'Z' {
				b[i] += 32
			}
		}
		return string(b)
	}()
	switch {
	case lower == "hset" && len(a) >= 3 && len(a)%2 == 1:
		xs := []*Sx{A("hset"), B(a[0])}
		for i := 1; i < len(a); i += 2 {
			xs = append(xs, L(B(a[i]), redisValSx(a[0], a[i+1], ctx)))
		}
		return L(xs...)
	case lower == "hdel" && len(a) >= 2, lower == "del" && len(a) >= 1:
		xs := []*Sx{A(lower)}
		for _, x := range a {
			xs = append(xs, B(x))
		}
		return L(xs...)
	case lower == "rpush" && len(a) >= 2:
		xs := []*Sx{A("rpush"), B(a[0])}
		for _, x := range a[1:] {
			xs = append(xs, redisValSx(a[0], x, ctx))
		}
		return L(xs...)
	case (lower == "lrem" || lower == "lset") && len(a) == 3:
		return L(A(lower), B(a[0]), A(string(a[1])), redisValSx(a[0], a[2], ctx))
	}
	xs := []*Sx{A("other"), S(lower)}
	for _, x := range a {
		xs = append(xs, B(x))
	}
	return L(xs...)
}

// the journal of a stand-in; (shift D) markers move the model clock of the decoding context
func redisJournalSx(s *respServer, start time.Time) []*Sx {
	ctx := &qCtx{start: start}
	out := []*Sx{}
	for _, ev := range s.Timeline() {
		if ev.Cmd != nil {
			out = append(out, redisCmdSx(ev.Cmd, ctx))
		} else if ev.Mark != nil && ev.Mark.IsL && len(ev.Mark.List) == 2 && ev.Mark.List[0].Atom == "shift" {
			ctx.shift += time.Duration(ev.Mark.List[1].Uint()) * time.Millisecond
		}
	}
	return out
}

// ---------------------------------------------------------------- rsub

var rsubNames = [][]string{
	{"c1", "c2", "c3"},
	{"c1", "sub2", "c3"},
	{"bus", "c2", ":x"},
	{"s", "u1", "c3"},
	{"c1", "c2", "c3"},
	{"a:sub", "c2", "xsub:"},
}

func sxRename(x *Sx, m map[string]string) *Sx {
	if !x.IsL {
		if n, ok := m[x.Atom]; ok {
			return A(n)
		}
		return x
	}
	l := &Sx{IsL: true}
	for _, y := range x.List {
		l.List = append(l.List, sxRename(y, m))
	}
	return l
}

func rsubGen(r *Rng, i int) *Sx {
	in := subGen(r, i)
	names := Pick(r, rsubNames)
	m := map[string]string{}
	for k, c := range []string{"c1", "c2", "c3"} {
		m[S(c).Atom] = S(names[k]).Atom
	}
	return sxRename(in, m)
}

func rsubClients(in *Sx) []string {
	seen := map[string]bool{}
	for _, o := range in.Field("ops") {
		seen[o.List[1].Str()] = true
	}
	ids := []string{}
	for c := range seen {
		ids = append(ids, c)
	}
	sort.Strings(ids)
	return ids
}

func rsubRun(in *Sx) *Sx {
	srv := newRespServer()
	defer srv.Close()
	pool := respPool(srv.Addr())
	st := rsubscription.New(pool)
	live := subRunOn(st, in)
	journal := redisJournalSx(srv, time.Time{})
	dump := srv.Dump()
	pool.Close()
	// restart: a new store object on the same data, loaded the way server.init does
	pool2 := respPool(srv.Addr())
	defer pool2.Close()
	st2 := rsubscription.New(pool2)
	ids := rsubClients(in)
	err := st2.Init(ids)
	res := []*Sx{}
	for _, q := range in.Field("queries") {
		res = append(res, subQuery(st2, q))
	}
	cs := []*Sx{}
	seen := map[string]bool{}
	all := append([]string{}, ids...)
	st2.Iterate(func(clientID string, s *gmqtt.Subscription) bool {
		if !seen[clientID] {
			seen[clientID] = true
			all = append(all, clientID)
		}
		return true
	}, subscription.IterationOptions{Type: subscription.TypeAll})
	sort.Strings(all)
	prev := ""
	for k, c := range all {
		if k > 0 && c == prev {
			continue
		}
		prev = c
		stt, e := st2.GetClientStats(c)
		if e != nil {
			cs = append(cs, L(S(c), A("none")))
		} else {
			cs = append(cs, L(S(c), U(stt.SubscriptionsCurrent)))
		}
	}
	g := st2.GetStats()
	idsx := []*Sx{}
	for _, c := range ids {
		idsx = append(idsx, S(c))
	}
	return L(K("live", live.List...), K("journal", journal...), K("store", dump.List...),
		K("reload", K("ids", idsx...), K("err", Bool(err != nil)), K("results", res...), K("cur", U(g.SubscriptionsCurrent)), K("cstats", cs...)))
}

// ---------------------------------------------------------------- runack

func runackRun(in *Sx) *Sx {
	srv := newRespServer()
	defer srv.Close()
	pool := respPool(srv.Addr())
	defer pool.Close()
	st := runack.New(runack.Options{ClientID: "c", Pool: pool})
	outs := []*Sx{}
	for _, o := range in.Field("ops") {
		switch o.List[0].Atom {
		case "init":
			st.Init(o.List[1].Bool())
			outs = append(outs, A("none"))
		case "set":
			b, err := st.Set(packets.PacketID(o.List[1].Int()))
			if err != nil {
				outs = append(outs, A("err"))
			} else {
				outs = append(outs, Bool(b))
			}
		case "remove":
			st.Remove(packets.PacketID(o.List[1].Int()))
			outs = append(outs, A("none"))
		case "restart": // what server.init does for a stored session: a new store object
			st = runack.New(runack.Options{ClientID: "c", Pool: pool})
			outs = append(outs, A("none"))
		}
	}
	return L(K("outs", outs...), K("journal", redisJournalSx(srv, time.Time{})...), K("store", srv.Dump().List...))
}

func runackGen(r *Rng, i int) *Sx {
	ops := []*Sx{L(A("init"), Bool(true))}
	for k := 0; k < r.Range(1, 30); k++ {
		id := Pick(r, []int{1, 2, 3, 65535, r.Range(1, 6)})
		switch x := r.Intn(20); {
		case x < 10:
			ops = append(ops, L(A("set"), I(id)))
		case x < 16:
			ops = append(ops, L(A("remove"), I(id)))
		case x < 17:
			ops = append(ops, L(A("init"), Bool(r.Chance(1, 3))))
		default: // broker restart; the broker always calls Init (on CONNECT) before anything else
			ops = append(ops, L(A("restart")))
			ops = append(ops, L(A("init"), Bool(r.Chance(1, 8))))
		}
	}
	return L(K("ops", ops...))
}

// ---------------------------------------------------------------- rqueue

// private state of redis.Queue
type rqPeek struct{ v reflect.Value }

func rqPeekOf(q *rqueue.Queue) rqPeek { return rqPeek{reflect.ValueOf(q).Elem()} }
func (p rqPeek) drained() bool        { return p.v.FieldByName("inflightDrained").Bool() }
func (p rqPeek) closed() bool         { return p.v.FieldByName("closed").Bool() }
func (p rqPeek) length() int          { return int(p.v.FieldByName("len").Int()) }
func (p rqPeek) current() int         { return int(p.v.FieldByName("current").Int()) }
func (p rqPeek) cache() map[packets.PacketID][]byte {
	f := p.v.FieldByName("readCache")
	return *(*map[packets.PacketID][]byte)(unsafe.Pointer(f.UnsafeAddr()))
}

// moves the two timestamps of an encoded queue.Elem d into the past
func rqShiftBytes(b []byte, d time.Duration) []byte {
	if len(b) < 19 {
		return b
	}
	sec := int64(d / time.Second)
	at := int64(binary.BigEndian.Uint64(b[0:8]))
	ex := int64(binary.BigEndian.Uint64(b[9:17]))
	zero := time.Time{}.Unix()
	if at != zero {
		binary.BigEndian.PutUint64(b[0:8], uint64(at-sec))
	}
	if ex != zero {
		binary.BigEndian.PutUint64(b[9:17], uint64(ex-sec))
	}
	return b
}

func rqueueRun(in *Sx) (out *Sx) {
	srv := newRespServer()
	defer srv.Close()
	pool := respPool(srv.Addr())
	defer pool.Close()
	rec := &qRecorder{}
	max := in.Field1("max").Int()
	ifexp := time.Duration(in.Field1("ifexp").Uint()) * time.Millisecond
	opts := rqueue.Options{MaxQueuedMsg: max, InflightExpiry: ifexp, ClientID: "c", Pool: pool, DefaultNotifier: rec}
	q, _ := rqueue.New(opts)
	// stored timestamps have whole seconds: start the model clock on a second boundary
	ctx := &qCtx{start: time.Now().Truncate(time.Second)}
	outs := []*Sx{}
	finish := func() *Sx {
		return L(K("outs", outs...), K("journal", redisJournalSx(srv, ctx.start)...))
	}
	defer func() {
		if e := recover(); e != nil {
			outs = append(outs, L(A("panic")))
			out = finish()
		}
	}()
	for _, o := range in.Field("ops") {
		switch o.List[0].Atom {
		case "shift":
			d := time.Duration(o.List[1].Uint()) * time.Millisecond
			srv.RewriteList("queue:c", func(b []byte) []byte { return rqShiftBytes(b, d) })
			if c := rqPeekOf(q).cache(); c != nil {
				for k, b := range c {
					c[k] = rqShiftBytes(append([]byte{}, b...), d)
				}
			}
			srv.Mark(L(A("shift"), o.List[1]))
			ctx.shift += d
			outs = append(outs, L(A("unit")))
		case "add":
			err := q.Add(ctx.elemOfSx(o.List[2]))
			if err != nil {
				outs = append(outs, L(A("error")))
			} else {
				outs = append(outs, L(append([]*Sx{A("add")}, rec.take()...)...))
			}
		case "read":
			pids := []packets.PacketID{}
			for _, p := range o.List[2].List {
				pids = append(pids, packets.PacketID(p.Int()))
			}
			pk := rqPeekOf(q)
			if pk.drained() && !pk.closed() && pk.current() >= pk.length() {
				outs = append(outs, L(A("blocked")))
				continue
			}
			rs, err := q.Read(pids)
			if err == queue.ErrClosed {
				outs = append(outs, L(A("closed")))
				continue
			}
			if err != nil {
				outs = append(outs, L(A("error")))
				rec.take()
				continue
			}
			els := []*Sx{}
			for _, e := range rs {
				els = append(els, ctx.sxElem(e))
			}
			outs = append(outs, L(A("read"), L(els...), L(rec.take()...)))
		case "readinflight":
			rs, err := q.ReadInflight(uint(o.List[2].Int()))
			if err != nil {
				outs = append(outs, L(A("error")))
				continue
			}
			els := []*Sx{}
			for _, e := range rs {
				els = append(els, ctx.sxElem(e))
			}
			outs = append(outs, L(A("readinflight"), L(els...)))
		case "remove":
			q.Remove(packets.PacketID(o.List[1].Int()))
			outs = append(outs, L(append([]*Sx{A("remove")}, rec.take()...)...))
		case "replace":
			ok, err := q.Replace(ctx.elemOfSx(o.List[1]))
			if err != nil {
				outs = append(outs, L(A("error")))
			} else {
				outs = append(outs, L(A("replace"), Bool(ok)))
			}
		case "init":
			q.Init(&queue.InitOptions{CleanStart: o.List[1].Bool(), Version: map[bool]packets.Version{true: packets.Version5, false: packets.Version311}[o.List[2].Bool()],
				ReadBytesLimit: uint32(o.List[3].Uint()), Notifier: rec})
			outs = append(outs, L(A("unit")))
		case "close":
			q.Close()
			outs = append(outs, L(A("unit")))
		case "restart":
			q, _ = rqueue.New(opts)
			outs = append(outs, L(A("unit")))
		}
	}
	return finish()
}

// queue histories + broker restarts: a restart is followed by some offline deliveries and
// then the reconnect sequence of the broker (Init, ReadInflight until drained).  Relative to
// queueGen: clock shifts of 10 min become 10 min 1 s (a stored whole-second expiry never
// coincides with the model clock); a Read without ids / ReadInflight(0) - which the broker
// never issues - is kept in 1 of 8 cases only.
func rqueueGen(r *Rng, i int) *Sx {
	base := queueGen(r, i)
	restarts := r.Chance(1, 2)
	ops := base.Field("ops")
	now := qT0
	tag := 1000
	out := []*Sx{}
	epilogue := len(ops) - 5
	fresh := 50000
	for k, o := range ops {
		switch o.List[0].Atom {
		case "shift":
			d := o.List[1].Uint()
			if d == 600000 {
				d = 601000
			}
			now += d
			o = L(A("shift"), U(d))
		case "add":
			e := o.List[2]
			// re-base the element on the (possibly moved) clock
			delta := now - o.List[1].Uint()
			exp := e.List[3]
			if exp.Atom != "none" {
				exp = U(exp.Uint() + delta)
			}
			o = L(A("add"), U(now), L(A("e"), e.List[1], U(now), exp, e.List[4]))
		case "read":
			pids := o.List[2]
			if len(pids.List) == 0 && !r.Chance(1, 8) {
				fresh++
				pids = L(I(fresh))
			}
			o = L(A("read"), U(now), pids)
		case "readinflight":
			n := o.List[2]
			if n.Int() == 0 && !r.Chance(1, 8) {
				n = I(1)
			}
			o = L(A("readinflight"), U(now), n)
		case "replace":
			e := o.List[1]
			delta := now - e.List[2].Uint()
			exp := e.List[3]
			if exp.Atom != "none" {
				exp = U(exp.Uint() + delta)
			}
			o = L(A("replace"), L(A("e"), e.List[1], U(now), exp, e.List[4]))
		}
		out = append(out, o)
		if restarts && k >= 2 && k < epilogue && r.Chance(1, 8) {
			out = append(out, L(A("restart")))
			for j := 0; j < Pick(r, []int{0, 0, 1, 1, 2, 4}); j++ {
				tag++
				out = append(out, L(A("add"), U(now), genElem(r, tag, now)))
			}
			out = append(out, L(A("init"), Bool(r.Chance(1, 10)), Bool(r.Bool()), I(1000)))
			if r.Chance(9, 10) {
				out = append(out, L(A("readinflight"), U(now), I(10)))
				out = append(out, L(A("readinflight"), U(now), I(10)))
			}
		}
	}
	return L(K("max", base.Field1("max")), K("ifexp", base.Field1("ifexp")), K("ops", out...))
}

func initRedisSuites() {
	register(&Suite{Name: "rsub", Gen: rsubGen, Run: rsubRun})
	register(&Suite{Name: "runack", Gen: runackGen, Run: runackRun})
	register(&Suite{Name: "rqueue", Gen: rqueueGen, Run: rqueueRun})
}

// ================================================================ crash
//
// Suite crash: a generated client history is run against an in-process broker whose persistence
// is the RESP stand-in.  The stand-in's journal of storage commands, together with the position
// (number of journalled commands) at which the broker WROTE every packet and at which the script
// SENT every request, is the first part of the observable.  Then, for every prefix k of the
// journal, a fresh stand-in is loaded with the first k commands ("the broker died after k storage
// commands"), a new broker is started on it, its session and subscription tables are inspected,
// every client reconnects with Clean Start 0 and what it is (re)delivered is collected, and every
// QoS 2 PUBLISH that was awaiting PUBREL at the crash is sent again (DUP) to see whether the
// broker appends it to a queue a second time.
//
// The MQTT client below uses the real pkg/packets codec (the wire runner's independent codec was
// not in /verif/harness when this was written).  Quiescence after each step is decided without
// sleeping: byte counters on both ends of every connection + a goroutine dump showing every
// gmqtt/server goroutine parked and none inside a redigo call.  One case runs in a child process
// of its own (the dump is process global); VERIF_CRASH_INPROC=1 runs it in-process instead.
//
// Input:  ((names xCID xCID xCID) (steps STEP...))
//   STEP := (connect C CLEAN EXPIRY) | (close C) | (disconnect C)
//         | (subscribe C PID SUBID (t xFILTER QOS NL RAP RH)...) | (unsubscribe C PID xFILTER...)
//         | (publish C QOS PID xTOPIC xPAYLOAD) | (pubrel C K) | (ack C K)
//   (ack C K): the K-th (mod n) outstanding delivery on connection C advances one step: QoS 1
//   PUBLISH -> PUBACK; QoS 2 PUBLISH -> PUBREC; PUBREL -> PUBCOMP.  (pubrel C K): PUBREL for the
//   K-th QoS 2 PUBLISH of C whose PUBREC arrived.  Both are resolved at run time; the resolved
//   packet is part of the output.
// Output: ((steps (st START DONE SENT (rx C POS PKT)...)...) (journal CMD...)
//          (prefixes (p K (up B) (sessions xCID...) (offline xCID...) (subs (xCID SUB)...)
//                       (clients (c C (sp B|none) (rx PKT...) (resend (PID RPUSHES ACKED)...))...))...))
//   START/DONE: journal length when the step's request was sent / when the broker was quiet again;
//   POS: journal length when the broker wrote the packet.

type crashWriteRec struct {
	end int64
	pos int
}

type crashSrvConn struct {
	net.Conn
	stand    *respServer
	mu       sync.Mutex
	nRead    int64
	nWritten int64
	readErr  bool
	closed   bool
	writes   []crashWriteRec
}

func (c *crashSrvConn) Read(p []byte) (int, error) {
	n, err := c.Conn.Read(p)
	c.mu.Lock()
	c.nRead += int64(n)
	if err != nil {
		c.readErr = true
	}
	c.mu.Unlock()
	return n, err
}

func (c *crashSrvConn) Write(p []byte) (int, error) {
	pos := c.stand.Writes()
	c.mu.Lock()
	c.nWritten += int64(len(p))
	c.writes = append(c.writes, crashWriteRec{c.nWritten, pos})
	c.mu.Unlock()
	return c.Conn.Write(p)
}

func (c *crashSrvConn) Close() error {
	c.mu.Lock()
	c.closed = true
	c.mu.Unlock()
	return c.Conn.Close()
}

type crashListener struct {
	net.Listener
	stand *respServer
	mu    sync.Mutex
	conns map[string]*crashSrvConn
}

func (l *crashListener) Accept() (net.Conn, error) {
	c, err := l.Listener.Accept()
	if err != nil {
		return nil, err
	}
	sc := &crashSrvConn{Conn: c, stand: l.stand}
	l.mu.Lock()
	l.conns[c.RemoteAddr().String()] = sc
	l.mu.Unlock()
	return sc, nil
}

func (l *crashListener) lookup(addr string) *crashSrvConn {
	l.mu.Lock()
	defer l.mu.Unlock()
	return l.conns[addr]
}

type crashCountReader struct {
	r io.Reader
	n *int64
}

func (c crashCountReader) Read(p []byte) (int, error) {
	n, err := c.r.Read(p)
	atomic.AddInt64(c.n, int64(n))
	return n, err
}

// a packet received from the broker (MQTT 5), decoded by the small client-side decoder below:
// pkg/packets validates as a server and rejects e.g. a PUBLISH carrying a subscription identifier
type crashPkt struct {
	typ     byte
	dup     bool
	qos     int
	topic   []byte
	payload []byte
	pid     int
	code    int
	sp      bool
	codes   []int
}

type crashRx struct {
	pkt *crashPkt
	end int64
}

func crashVarint(b []byte) (int, int) { // value, bytes used (0 = malformed)
	v, m := 0, 1
	for i := 0; i < len(b) && i < 4; i++ {
		v += int(b[i]&127) * m
		if b[i]&128 == 0 {
			return v, i + 1
		}
		m *= 128
	}
	return 0, 0
}

func crashDecode(h byte, body []byte) *crashPkt {
	p := &crashPkt{typ: h >> 4}
	u16 := func(b []byte) int { return int(b[0])<<8 | int(b[1]) }
	defer func() {
		if recover() != nil {
			p.typ = 0
		}
	}()
	switch p.typ {
	case 2: // CONNACK
		p.sp = body[0]&1 == 1
		p.code = int(body[1])
	case 3: // PUBLISH
		p.dup = h&8 != 0
		p.qos = int(h>>1) & 3
		n := u16(body)
		p.topic = append([]byte{}, body[2:2+n]...)
		body = body[2+n:]
		if p.qos > 0 {
			p.pid = u16(body)
			body = body[2:]
		}
		pl, used := crashVarint(body)
		p.payload = append([]byte{}, body[used+pl:]...)
	case 4, 5, 6, 7: // PUBACK PUBREC PUBREL PUBCOMP
		p.pid = u16(body)
		if len(body) > 2 {
			p.code = int(body[2])
		}
	case 9, 11: // SUBACK UNSUBACK
		p.pid = u16(body)
		pl, used := crashVarint(body[2:])
		for _, c := range body[2+used+pl:] {
			p.codes = append(p.codes, int(c))
		}
	case 14: // DISCONNECT
		if len(body) > 0 {
			p.code = int(body[0])
		}
	}
	return p
}

type crashDelivery struct {
	pid   int
	qos   int
	state string // "pub" | "rel"
}

type crashClient struct {
	label      int
	cid        string
	conn       net.Conn
	wr         *packets.Writer
	mu         sync.Mutex
	raw        int64
	decoded    int64
	pkts       []crashRx
	taken      int
	eof        bool
	wrote      int64
	closedByUs bool
	sc         *crashSrvConn
	// protocol state of the scripted client on this connection
	outstanding []*crashDelivery
	pendingRel  []int
}

func (c *crashClient) reader() {
	br := bufio.NewReaderSize(crashCountReader{c.conn, &c.raw}, 4096)
	fail := func() {
		c.mu.Lock()
		c.eof = true
		c.decoded = atomic.LoadInt64(&c.raw)
		c.mu.Unlock()
	}
	for {
		h, err := br.ReadByte()
		if err != nil {
			fail()
			return
		}
		rl, m := 0, 1
		for {
			b, err := br.ReadByte()
			if err != nil {
				fail()
				return
			}
			rl += int(b&127) * m
			m *= 128
			if b&128 == 0 {
				break
			}
		}
		body := make([]byte, rl)
		if _, err := io.ReadFull(br, body); err != nil {
			fail()
			return
		}
		p := crashDecode(h, body)
		c.mu.Lock()
		c.decoded = atomic.LoadInt64(&c.raw) - int64(br.Buffered())
		c.pkts = append(c.pkts, crashRx{p, c.decoded})
		c.mu.Unlock()
	}
}

type crashCountWriter struct {
	c *crashClient
}

func (w crashCountWriter) Write(p []byte) (int, error) {
	w.c.mu.Lock()
	w.c.wrote += int64(len(p))
	w.c.mu.Unlock()
	return w.c.conn.Write(p)
}

type crashServer interface {
	server.Server
	Run() error
}

type crashEnv struct {
	stand   *respServer
	ln      *crashListener
	addr    string
	srv     crashServer
	runErr  chan error
	clients []*crashClient // every connection ever opened in this environment
	ignore  map[string]bool
	why     string
}

func crashDump() string {
	buf := make([]byte, 1<<18)
	for {
		n := runtime.Stack(buf, true)
		if n < len(buf) {
			return string(buf[:n])
		}
		buf = make([]byte, 2*len(buf))
	}
}

// broker goroutines: id -> (state, body)
type crashGor struct {
	id    string
	state string
	body  string
}

func crashBrokerGoroutines() []crashGor {
	out := []crashGor{}
	for _, blk := range strings.Split(crashDump(), "\n\n") {
		if !strings.HasPrefix(blk, "goroutine ") {
			continue
		}
		nl := strings.IndexByte(blk, '\n')
		if nl < 0 {
			continue
		}
		head := blk[:nl]
		body := blk[nl+1:]
		if !strings.Contains(body, "DrmagicE/gmqtt/server.") {
			continue
		}
		f := strings.Fields(head)
		st := ""
		if i := strings.IndexByte(head, '['); i >= 0 {
			st = strings.TrimSuffix(head[i+1:], "]:")
			if j := strings.IndexByte(st, ','); j >= 0 {
				st = st[:j]
			}
		}
		out = append(out, crashGor{f[1], st, body})
	}
	return out
}

var crashIdleStates = map[string]bool{"IO wait": true, "select": true, "chan receive": true, "sync.Cond.Wait": true,
	"sync.WaitGroup.Wait": true, "semacquire": true}

func (e *crashEnv) brokerIdle() bool {
	for _, g := range crashBrokerGoroutines() {
		if e.ignore[g.id] {
			continue
		}
		if strings.Contains(g.body, "gomodule/redigo") || !crashIdleStates[g.state] {
			e.why = "goroutine " + g.id + " [" + g.state + "]"
			return false
		}
	}
	return true
}

func (e *crashEnv) quietOnce() (string, bool) {
	sig := []byte{}
	for _, c := range e.clients {
		if c.sc == nil {
			c.sc = e.ln.lookup(c.conn.LocalAddr().String())
			if c.sc == nil {
				e.why = "not accepted"
				return "", false
			}
		}
		c.mu.Lock()
		wrote, decoded, eof, byUs := c.wrote, c.decoded, c.eof, c.closedByUs
		c.mu.Unlock()
		c.sc.mu.Lock()
		nr, nw, rerr, cl := c.sc.nRead, c.sc.nWritten, c.sc.readErr, c.sc.closed
		c.sc.mu.Unlock()
		if byUs {
			if !rerr && !cl {
				e.why = "close not seen"
				return "", false
			}
		} else {
			if nr != wrote && !rerr && !cl {
				e.why = "unread request bytes"
				return "", false
			}
			if decoded != nw && !eof {
				e.why = "undelivered reply bytes"
				return "", false
			}
			if cl && !eof {
				e.why = "eof not seen"
				return "", false
			}
		}
		sig = append(sig, fmt.Sprintf("%d/%d/%d/%d/%v;", wrote, nr, nw, decoded, eof)...)
	}
	sig = append(sig, fmt.Sprintf("cmd%d", e.stand.Commands())...)
	if !e.brokerIdle() {
		return "", false
	}
	return string(sig), true
}

// quiet = two consecutive identical quiet snapshots.  Polling backs off (a goroutine dump stops
// the world: on a loaded machine a tight loop of dumps would starve the broker it waits for).
func (e *crashEnv) settle() bool {
	deadline := time.Now().Add(60 * time.Second)
	prev := "-"
	pause := 20 * time.Microsecond
	for time.Now().Before(deadline) {
		sig, ok := e.quietOnce()
		if ok && sig == prev {
			return true
		}
		if ok {
			prev = sig
			runtime.Gosched()
		} else {
			prev = "-"
			time.Sleep(pause)
			if pause < 2*time.Millisecond {
				pause *= 2
			}
		}
	}
	return false
}

func crashConfig(addr string) config.Config {
	cfg := config.DefaultConfig()
	cfg.API = config.API{}
	cfg.Persistence.Type = config.PersistenceTypeRedis
	maxIdle, maxActive := uint(64), uint(0)
	cfg.Persistence.Redis = config.RedisPersistence{Addr: addr, MaxIdle: &maxIdle, MaxActive: &maxActive, IdleTimeout: 240 * time.Second}
	return cfg
}

// starts a broker on the stand-in; false = start-up failed
func crashStart(stand *respServer) (*crashEnv, bool) {
	e := &crashEnv{stand: stand, ignore: map[string]bool{}}
	for _, g := range crashBrokerGoroutines() { // left-overs of earlier brokers of this process
		e.ignore[g.id] = true
	}
	base, err := net.Listen("tcp", "127.0.0.1:0")
	if err != nil {
		panic(err)
	}
	e.ln = &crashListener{Listener: base, stand: stand, conns: map[string]*crashSrvConn{}}
	e.addr = base.Addr().String()
	e.srv = server.New(server.WithTCPListener(e.ln), server.WithConfig(crashConfig(stand.Addr())))
	e.runErr = make(chan error, 1)
	go func() { e.runErr <- e.srv.Run() }()
	deadline := time.Now().Add(60 * time.Second)
	for time.Now().Before(deadline) {
		select {
		case <-e.runErr:
			base.Close()
			return e, false
		default:
		}
		for _, g := range crashBrokerGoroutines() {
			if !e.ignore[g.id] && strings.Contains(g.body, "(*server).serveTCP") && g.state == "IO wait" {
				return e, true
			}
		}
		time.Sleep(200 * time.Microsecond)
	}
	return e, false
}

func (e *crashEnv) stop() {
	for _, c := range e.clients {
		c.mu.Lock()
		byUs := c.closedByUs
		c.closedByUs = true
		c.mu.Unlock()
		if !byUs {
			c.conn.Close()
		}
	}
	ctx, cancel := context.WithTimeout(context.Background(), 10*time.Second)
	_ = e.srv.Stop(ctx)
	cancel()
	deadline := time.Now().Add(10 * time.Second)
	for time.Now().Before(deadline) {
		n := 0
		for _, g := range crashBrokerGoroutines() {
			if !e.ignore[g.id] {
				n++
			}
		}
		if n == 0 {
			return
		}
		time.Sleep(100 * time.Microsecond)
	}
}

func (e *crashEnv) dial(label int, cid string) *crashClient {
	conn, err := net.DialTimeout("tcp", e.addr, 30*time.Second)
	if err != nil {
		panic("crash: dial: " + err.Error())
	}
	c := &crashClient{label: label, cid: cid, conn: conn}
	c.wr = packets.NewWriter(crashCountWriter{c})
	e.clients = append(e.clients, c)
	go c.reader()
	return c
}

func (c *crashClient) send(p packets.Packet) {
	_ = c.wr.WriteAndFlush(p)
}

func (c *crashClient) close() {
	c.mu.Lock()
	c.closedByUs = true
	c.mu.Unlock()
	c.conn.Close()
}

// has an untaken packet of the given type arrived
func (c *crashClient) has(typ byte) bool {
	c.mu.Lock()
	defer c.mu.Unlock()
	for _, r := range c.pkts[c.taken:] {
		if r.pkt.typ == typ {
			return true
		}
	}
	return false
}

func (c *crashClient) open() bool {
	c.mu.Lock()
	defer c.mu.Unlock()
	return !c.closedByUs && !c.eof
}

func crashPktSx(x *crashPkt) *Sx {
	switch x.typ {
	case 2:
		return L(A("connack"), Bool(x.sp), I(x.code))
	case 9:
		cs := []*Sx{A("suback"), I(x.pid)}
		for _, c := range x.codes {
			cs = append(cs, I(c))
		}
		return L(cs...)
	case 11:
		return L(A("unsuback"), I(x.pid))
	case 4:
		return L(A("puback"), I(x.pid), I(x.code))
	case 5:
		return L(A("pubrec"), I(x.pid), I(x.code))
	case 6:
		return L(A("pubrel"), I(x.pid))
	case 7:
		return L(A("pubcomp"), I(x.pid))
	case 3:
		return L(A("publish"), Bool(x.dup), I(x.qos), B(x.topic), B(x.payload), I(x.pid))
	case 14:
		return L(A("disconnect"), I(x.code))
	case 13:
		return L(A("pingresp"))
	}
	return L(A("other"))
}

// takes the packets that arrived since the last call, updates the scripted client's
// protocol state, and returns them with the journal position at which the broker wrote them
func (c *crashClient) take() []*Sx {
	c.mu.Lock()
	news := c.pkts[c.taken:]
	c.taken = len(c.pkts)
	c.mu.Unlock()
	out := []*Sx{}
	for _, r := range news {
		pos := -1
		if c.sc != nil {
			c.sc.mu.Lock()
			for _, w := range c.sc.writes {
				if w.end >= r.end {
					pos = w.pos
					break
				}
			}
			c.sc.mu.Unlock()
		}
		x := r.pkt
		switch x.typ {
		case 3:
			if x.qos > 0 {
				found := false
				for _, d := range c.outstanding {
					if d.pid == x.pid {
						found = true
					}
				}
				if !found {
					c.outstanding = append(c.outstanding, &crashDelivery{x.pid, x.qos, "pub"})
				}
			}
		case 6:
			found := false
			for _, d := range c.outstanding {
				if d.pid == x.pid {
					d.state = "rel"
					found = true
				}
			}
			if !found {
				c.outstanding = append(c.outstanding, &crashDelivery{x.pid, 2, "rel"})
			}
		case 5:
			c.pendingRel = append(c.pendingRel, x.pid)
		}
		out = append(out, L(A("rx"), I(c.label), I(pos), crashPktSx(r.pkt)))
	}
	return out
}

func crashConnectPkt(cid string, clean bool, expiry uint32) *packets.Connect {
	return &packets.Connect{Version: packets.Version5, ProtocolLevel: 5, ProtocolName: []byte("MQTT"), CleanStart: clean,
		KeepAlive: 0, ClientID: []byte(cid), Properties: &packets.Properties{SessionExpiryInterval: &expiry}}
}

func crashRunLocal(in *Sx) *Sx {
	if runtime.GOMAXPROCS(0) > 4 {
		runtime.GOMAXPROCS(4)
	}
	names := []string{}
	for _, n := range in.Field("names") {
		names = append(names, n.Str())
	}
	stand := newRespServer()
	defer stand.Close()
	env, ok := crashStart(stand)
	if !ok {
		return L(K("harness_error", S("broker did not start")))
	}
	cur := make([]*crashClient, len(names))
	// QoS 2 publishes of each client: pid -> (topic, payload, journal position of the PUBREC, position at which PUBREL was sent or -1)
	type q2 struct {
		pid            int
		topic, payload []byte
		recPos, relPos int
	}
	q2s := make([][]*q2, len(names))
	stepsOut := []*Sx{}
	hung := false
	for _, st := range in.Field("steps") {
		if hung {
			stepsOut = append(stepsOut, L(A("st"), I(-1), I(-1), L(A("aborted"))))
			continue
		}
		kind := st.List[0].Atom
		ci := st.List[1].Int()
		c := cur[ci]
		sent := L(A("skipped"))
		start := stand.Writes()
		alive := c != nil && c.open()
		switch kind {
		case "connect":
			if alive {
				c.close()
				env.settle()
				start = stand.Writes()
			}
			c = env.dial(ci, names[ci])
			cur[ci] = c
			c.send(crashConnectPkt(names[ci], st.List[2].Bool(), uint32(st.List[3].Uint())))
			sent = st
		case "close":
			if alive {
				c.close()
				sent = st
			}
		case "disconnect":
			if alive {
				// DISCONNECT, then the client closes the network connection (MQTT 3.14.4); the
				// broker itself keeps the socket open after a DISCONNECT
				c.send(&packets.Disconnect{Version: packets.Version5, Code: 0})
				c.close()
				sent = st
			}
		case "subscribe":
			if alive {
				p := &packets.Subscribe{Version: packets.Version5, PacketID: packets.PacketID(st.List[2].Int()), Properties: &packets.Properties{}}
				if id := uint32(st.List[3].Uint()); id != 0 {
					p.Properties.SubscriptionIdentifier = []uint32{id}
				}
				for _, t := range st.List[4:] {
					p.Topics = append(p.Topics, packets.Topic{Name: t.List[1].Str(), SubOptions: packets.SubOptions{Qos: uint8(t.List[2].Int()),
						NoLocal: t.List[3].Bool(), RetainAsPublished: t.List[4].Bool(), RetainHandling: byte(t.List[5].Int())}})
				}
				c.send(p)
				sent = st
			}
		case "unsubscribe":
			if alive {
				p := &packets.Unsubscribe{Version: packets.Version5, PacketID: packets.PacketID(st.List[2].Int()), Properties: &packets.Properties{}}
				for _, t := range st.List[3:] {
					p.Topics = append(p.Topics, t.Str())
				}
				c.send(p)
				sent = st
			}
		case "publish":
			if alive {
				qos := st.List[2].Int()
				p := &packets.Publish{Version: packets.Version5, Qos: uint8(qos), PacketID: packets.PacketID(st.List[3].Int()),
					TopicName: st.List[4].Bytes(), Payload: st.List[5].Bytes(), Properties: &packets.Properties{}}
				if qos == 2 {
					q2s[ci] = append(q2s[ci], &q2{pid: st.List[3].Int(), topic: st.List[4].Bytes(), payload: st.List[5].Bytes(), recPos: -1, relPos: -1})
				}
				c.send(p)
				sent = st
			}
		case "pubrel":
			if alive && len(c.pendingRel) > 0 {
				k := st.List[2].Int() % len(c.pendingRel)
				pid := c.pendingRel[k]
				c.pendingRel = append(c.pendingRel[:k:k], c.pendingRel[k+1:]...)
				for _, q := range q2s[ci] {
					if q.pid == pid && q.relPos < 0 {
						q.relPos = start
					}
				}
				c.send(&packets.Pubrel{PacketID: packets.PacketID(pid), Properties: &packets.Properties{}})
				sent = L(A("pubrel"), I(ci), I(pid))
			}
		case "ack":
			if alive && len(c.outstanding) > 0 {
				k := st.List[2].Int() % len(c.outstanding)
				d := c.outstanding[k]
				switch {
				case d.state == "pub" && d.qos == 1:
					c.outstanding = append(c.outstanding[:k:k], c.outstanding[k+1:]...)
					c.send(&packets.Puback{Version: packets.Version5, PacketID: packets.PacketID(d.pid), Properties: &packets.Properties{}})
					sent = L(A("puback"), I(ci), I(d.pid))
				case d.state == "pub":
					d.state = "rec" // PUBREC sent, PUBREL expected
					c.send(&packets.Pubrec{Version: packets.Version5, PacketID: packets.PacketID(d.pid), Properties: &packets.Properties{}})
					sent = L(A("pubrec"), I(ci), I(d.pid))
				case d.state == "rel":
					c.outstanding = append(c.outstanding[:k:k], c.outstanding[k+1:]...)
					c.send(&packets.Pubcomp{Version: packets.Version5, PacketID: packets.PacketID(d.pid), Properties: &packets.Properties{}})
					sent = L(A("pubcomp"), I(ci), I(d.pid))
				}
			}
		}
		okq := env.settle()
		// a request that must be answered: quiet without the answer (and with the connection
		// still open) cannot be the end of the step
		want := map[string]byte{"connect": 2, "subscribe": 9, "unsubscribe": 11, "pubrel": 7, "pubrec": 6}[sent.List[0].Atom]
		if sent.List[0].Atom == "publish" {
			want = map[int]byte{1: 4, 2: 5}[sent.List[2].Int()]
		}
		if want != 0 && cur[ci] != nil {
			for try := 0; try < 200 && okq && cur[ci].open() && !cur[ci].has(want); try++ {
				time.Sleep(100 * time.Microsecond)
				okq = env.settle()
			}
			if cur[ci].open() && !cur[ci].has(want) {
				okq = false
				env.why = "no answer to " + sent.List[0].Atom
			}
		}
		done := stand.Writes()
		ent := []*Sx{A("st"), I(start), I(done), sent}
		for _, cl := range cur {
			if cl != nil {
				rx := cl.take()
				for _, r := range rx { // PUBREC positions of this client's QoS 2 publishes
					pk := r.List[3]
					if pk.List[0].Atom == "pubrec" {
						for _, q := range q2s[cl.label] {
							if q.pid == pk.List[1].Int() && q.recPos < 0 {
								q.recPos = r.List[2].Int()
							}
						}
					}
				}
				ent = append(ent, rx...)
			}
		}
		if !okq {
			ent = append(ent, L(A("hang"), S(env.why)))
			hung = true
		}
		stepsOut = append(stepsOut, L(ent...))
	}
	if os.Getenv("CRASH_DEBUG") == "2" {
		for _, c := range env.clients {
			c.mu.Lock()
			fmt.Fprintf(os.Stderr, "conn label=%d cid=%s closedByUs=%v eof=%v wrote=%d decoded=%d npk=%d", c.label, c.cid, c.closedByUs, c.eof, c.wrote, c.decoded, len(c.pkts))
			if c.sc != nil {
				fmt.Fprintf(os.Stderr, " srv: read=%d written=%d readErr=%v closed=%v", c.sc.nRead, c.sc.nWritten, c.sc.readErr, c.sc.closed)
			}
			for _, r := range c.pkts {
				fmt.Fprintf(os.Stderr, " %s", crashPktSx(r.pkt).String())
			}
			fmt.Fprintln(os.Stderr)
			c.mu.Unlock()
		}
		fmt.Fprintln(os.Stderr, crashDump())
	}
	journal := stand.Journal()
	jsx := []*Sx{}
	for _, c := range journal {
		jsx = append(jsx, crashCmdSx(c))
	}
	// the session gauges / counters of the live broker at the end of the history (C20 on the redis backend:
	// a gauge that wrapped below zero or a termination that never happened shows here)
	gs := env.srv.StatsManager().GetGlobalStats().ConnectionStats
	gauges := K("gauges", U(gs.ActiveCurrent), U(gs.InactiveCurrent),
		U(gs.SessionTerminated.Normal), U(gs.SessionTerminated.Expired), U(gs.SessionTerminated.TakenOver))
	env.stop()
	if hung {
		return L(K("steps", stepsOut...), K("journal", jsx...), K("prefixes"), gauges)
	}
	// ---- every prefix ----
	prefixes := []*Sx{}
	for k := 0; k <= len(journal); k++ {
		st2 := newRespServer()
		st2.LoadPrefix(journal, k)
		if k%2 == 1 {
			// every other cut: the broker had been running for two hours (twice the Session Expiry Interval of the
			// scenarios) when it died; its sessions were connected or recently disconnected, none had expired
			st2.BackdateSessions(7200)
		}
		e2, up := crashStart(st2)
		ent := []*Sx{A("p"), I(k), K("up", Bool(up))}
		if up {
			sess := []*Sx{}
			_ = e2.srv.ClientService().IterateSession(func(s *gmqtt.Session) bool {
				sess = append(sess, S(s.ClientID))
				return true
			})
			off := []*Sx{}
			if vs, ok := interface{}(e2.srv).(server.VerifServer); ok {
				for _, id := range vs.VerifOffline() {
					off = append(off, S(id))
				}
			}
			subs := []*Sx{}
			e2.srv.SubscriptionService().Iterate(func(clientID string, s *gmqtt.Subscription) bool {
				subs = append(subs, L(S(clientID), sxSub(s)))
				return true
			}, subscription.IterationOptions{Type: subscription.TypeAll})
			ent = append(ent, K("sessions", sortSx(sess)...), K("offline", sortSx(off)...), K("subs", sortSx(subs)...))
			cls := []*Sx{}
			for ci, cid := range names {
				c := e2.dial(ci, cid)
				c.send(crashConnectPkt(cid, false, 3600))
				okq := e2.settle()
				for try := 0; try < 200 && okq && c.open() && !c.has(2); try++ {
					time.Sleep(100 * time.Microsecond)
					okq = e2.settle()
				}
				rx := c.take()
				sp := A("none")
				pk := []*Sx{}
				for _, r := range rx {
					p := r.List[3]
					if p.List[0].Atom == "connack" {
						sp = p.List[1]
					} else {
						pk = append(pk, p)
					}
				}
				if sp.Atom == "none" && os.Getenv("CRASH_DEBUG") != "" {
					c.mu.Lock()
					fmt.Fprintf(os.Stderr, "NO CONNACK k=%d ci=%d okq=%v wrote=%d decoded=%d eof=%v npk=%d\n", k, ci, okq, c.wrote, c.decoded, c.eof, len(c.pkts))
					c.mu.Unlock()
					if c.sc != nil {
						fmt.Fprintf(os.Stderr, "  srv read=%d written=%d readErr=%v closed=%v\n", c.sc.nRead, c.sc.nWritten, c.sc.readErr, c.sc.closed)
					}
					fmt.Fprintln(os.Stderr, crashDump())
				}
				res := []*Sx{}
				for _, q := range q2s[ci] {
					// PUBREC written before the crash, PUBREL not yet sent
					if q.recPos >= 0 && q.recPos <= k && (q.relPos < 0 || q.relPos >= k) && c.open() {
						before := st2.Journal()
						c.send(&packets.Publish{Version: packets.Version5, Dup: true, Qos: 2, PacketID: packets.PacketID(q.pid), TopicName: q.topic, Payload: q.payload, Properties: &packets.Properties{}})
						okq = e2.settle() && okq
						pushes := 0
						for _, cmd := range st2.Journal()[len(before):] {
							if strings.EqualFold(string(cmd[0]), "rpush") {
								pushes++
							}
						}
						acked := false
						for _, r := range c.take() {
							p := r.List[3]
							if p.List[0].Atom == "pubrec" && p.List[1].Int() == q.pid {
								acked = true
							}
						}
						res = append(res, L(I(q.pid), I(pushes), Bool(acked)))
					}
				}
				cl := []*Sx{A("c"), I(ci), K("sp", sp), K("rx", pk...), K("resend", res...)}
				if !okq {
					cl = append(cl, L(A("hang"), S(e2.why)))
				}
				cls = append(cls, L(cl...))
				c.close()
				e2.settle()
			}
			ent = append(ent, K("clients", cls...))
		}
		e2.stop()
		st2.Close()
		prefixes = append(prefixes, L(ent...))
	}
	return L(K("steps", stepsOut...), K("journal", jsx...), K("prefixes", prefixes...), gauges)
}

// journal entries of the broker: queue elements are decoded with times dropped (the model has
// no clock at this level), the wall-clock field of the session hash is masked
func crashCmdSx(c respCmd) *Sx {
	x := redisCmdSx(c, nil)
	return crashMask(x)
}

func crashMask(x *Sx) *Sx {
	if !x.IsL || len(x.List) == 0 {
		return x
	}
	if !x.List[0].IsL && x.List[0].Atom == "e" && len(x.List) == 5 {
		// (e TAG AT EXP BODY) -> (e TAG 0 none BODY); expiry presence is kept as 0/none
		exp := A("none")
		if x.List[3].Atom != "none" {
			exp = A("0")
		}
		return L(x.List[0], x.List[1], A("0"), exp, x.List[4])
	}
	if !x.List[0].IsL && x.List[0].Atom == "hset" && hasPrefix(x.List[1].Bytes(), "session:") {
		out := []*Sx{x.List[0], x.List[1]}
		for _, fv := range x.List[2:] {
			if fv.List[0].Str() == "connected_at" {
				out = append(out, L(fv.List[0], S("0")))
			} else {
				out = append(out, fv)
			}
		}
		return L(out...)
	}
	l := &Sx{IsL: true}
	for _, y := range x.List {
		l.List = append(l.List, crashMask(y))
	}
	return l
}

func crashRun(in *Sx) *Sx {
	if os.Getenv("VERIF_CRASH_INPROC") != "" {
		crashMu.Lock()
		defer crashMu.Unlock()
		return crashRunLocal(in)
	}
	exe, err := os.Executable()
	if err != nil {
		return L(K("harness_error", S(err.Error())))
	}
	cmd := exec.Command(exe, "crashchild")
	cmd.Env = append(os.Environ(), "VERIF_CRASH_CHILD=1")
	cmd.Stdin = strings.NewReader(in.String() + "\n")
	var stderr strings.Builder
	cmd.Stderr = &stderr
	if os.Getenv("CRASH_DEBUG") != "" {
		cmd.Stderr = os.Stderr
	}
	outb, err := cmd.Output()
	if err != nil {
		msg := stderr.String()
		if len(msg) > 400 {
			msg = msg[len(msg)-400:]
		}
		return L(K("harness_error", S("child: "+err.Error()+": "+msg)))
	}
	x, perr := ParseSx(strings.TrimSpace(string(outb)))
	if perr != nil {
		return L(K("harness_error", S("child output: "+perr.Error())))
	}
	return x
}

var crashMu sync.Mutex

func init() {
	if os.Getenv("VERIF_CRASH_CHILD") == "1" {
		sc := bufio.NewScanner(os.Stdin)
		sc.Buffer(make([]byte, 1<<20), 1<<28)
		if !sc.Scan() {
			os.Exit(2)
		}
		in, err := ParseSx(sc.Text())
		if err != nil {
			fmt.Fprintln(os.Stderr, "crash child: bad input:", err)
			os.Exit(2)
		}
		var out *Sx
		func() {
			defer func() {
				if e := recover(); e != nil {
					out = L(K("harness_panic", S(fmt.Sprint(e))))
				}
			}()
			out = crashRunLocal(in)
		}()
		fmt.Println(out.String())
		os.Exit(0)
	}
	initRedisSuites()
	register(&Suite{Name: "crash", Gen: crashGen, Run: crashRun})
}

// ---- generator ----

var crashNames = [][]string{
	{"c1", "c2", "c3"},
	{"c1", "c2", "c3"},
	{"c1", "c2", "c3"},
	{"c1", "sub2", "c3"},
	{"bus", "c2", "u3"},
	{"a", "b:", "c"},
}

var crashFilters = []string{"a", "a/b", "a/+", "a/#", "+/b", "t/c", "#", "$share/g1/z/1", "$share/g2/z/+"}
var crashTopics = []string{"a", "a/b", "a/b", "t/c", "q"}

func crashGen(r *Rng, i int) *Sx {
	names := Pick(r, crashNames)
	steps := []*Sx{}
	online := make([]bool, 3)
	pid := []int{10, 10, 10}
	subbed := make([][]string, 3)
	msg := 0
	connect := func(c int) {
		exp := 3600
		if r.Chance(1, 12) {
			exp = 0
		}
		clean := r.Chance(1, 5)
		if clean {
			subbed[c] = nil
		}
		steps = append(steps, L(A("connect"), I(c), Bool(clean), I(exp)))
		online[c] = true
	}
	subscribe := func(c int) {
		ts := []*Sx{A("subscribe"), I(c), I(pid[c]), I(Pick(r, []int{0, 0, 1, 2, 3}))}
		pid[c]++
		seen := map[string]bool{}
		for j := 0; j < Pick(r, []int{1, 1, 2, 3}); j++ {
			f := Pick(r, crashFilters)
			if seen[f] {
				continue
			}
			seen[f] = true
			subbed[c] = append(subbed[c], f)
			nl := r.Chance(1, 4) && !strings.HasPrefix(f, "$share/") // No Local on a shared subscription is a protocol error
			ts = append(ts, L(A("t"), S(f), I(Pick(r, []int{0, 1, 1, 2, 2})), Bool(nl), Bool(r.Bool()), I(r.Intn(3))))
		}
		steps = append(steps, L(ts...))
	}
	for c := 0; c < 3; c++ {
		if r.Chance(5, 6) {
			connect(c)
			if r.Chance(2, 3) {
				subscribe(c)
			}
		}
	}
	n := r.Range(6, 24)
	for k := 0; k < n; k++ {
		c := r.Intn(3)
		if !online[c] {
			if r.Chance(1, 2) {
				connect(c)
			}
			continue
		}
		switch x := r.Intn(100); {
		case x < 14:
			subscribe(c)
		case x < 24:
			ts := []*Sx{A("unsubscribe"), I(c), I(pid[c])}
			pid[c]++
			seen := map[string]bool{}
			for j := 0; j < Pick(r, []int{1, 1, 2}); j++ {
				f := Pick(r, crashFilters)
				if len(subbed[c]) > 0 && r.Chance(4, 5) {
					f = Pick(r, subbed[c])
				}
				if seen[f] {
					continue
				}
				seen[f] = true
				ts = append(ts, S(f))
			}
			steps = append(steps, L(ts...))
		case x < 56:
			msg++
			q := Pick(r, []int{0, 1, 1, 1, 2, 2, 2})
			steps = append(steps, L(A("publish"), I(c), I(q), I(pid[c]), S(Pick(r, crashTopics)), S(fmt.Sprintf("m%d", msg))))
			pid[c]++
		case x < 64:
			steps = append(steps, L(A("pubrel"), I(c), I(r.Intn(4))))
		case x < 86:
			steps = append(steps, L(A("ack"), I(c), I(r.Intn(4))))
		case x < 96:
			steps = append(steps, L(A(Pick(r, []string{"close", "close", "disconnect"})), I(c)))
			online[c] = false
		default:
			connect(c) // reconnect while the old connection is still open: the script closes it first
		}
	}
	nm := []*Sx{}
	for _, x := range names {
		nm = append(nm, S(x))
	}
	return L(K("names", nm...), K("steps", steps...))
}
