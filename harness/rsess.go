package main

// Suite rsess (C09, C05): the session store (persistence/session) against the abstract machine of
// Model/SessStore.v.
//
//	input : ((backend mem|redis) (ops (set SESS) (get xCID) (remove xCID) (setexp xCID N) (iterate) (restart)...))
//	        SESS = (ss xCID WILL|none DELAY AT EXPIRY)     AT = connect time in Unix seconds
//	output: ((outs (unit) | (get SESS|none) | (iter SESS...) | (err xTEXT) ...))   iter sorted by client id
//
// redis: the real store over the RESP stand-in; (restart) replaces pool and store object (a restarted broker).

import (
	"sort"
	"time"

	"github.com/DrmagicE/gmqtt"
	"github.com/DrmagicE/gmqtt/persistence/session"
	smem "github.com/DrmagicE/gmqtt/persistence/session/mem"
	sredis "github.com/DrmagicE/gmqtt/persistence/session/redis"
)

func sxSess(s *gmqtt.Session) *Sx {
	if s == nil {
		return A("none")
	}
	w := A("none")
	if s.Will != nil {
		w = sxMsg(s.Will)
	}
	return L(A("ss"), S(s.ClientID), w, U(uint64(s.WillDelayInterval)), U(uint64(s.ConnectedAt.Unix())), U(uint64(s.ExpiryInterval)))
}

func sessOfSx(x *Sx) *gmqtt.Session {
	s := &gmqtt.Session{ClientID: x.List[1].Str(), WillDelayInterval: uint32(x.List[3].Uint()),
		ConnectedAt: time.Unix(int64(x.List[4].Uint()), 0), ExpiryInterval: uint32(x.List[5].Uint())}
	if x.List[2].IsL {
		s.Will = msgOfSx(x.List[2])
	}
	return s
}

func rsessRun(in *Sx) *Sx {
	backend := in.Field1("backend").Atom
	var store session.Store
	var stand *respServer
	open := func() {
		if backend == "mem" {
			if store == nil {
				store = smem.New()
			}
			return
		}
		store = sredis.New(respPool(stand.Addr()))
	}
	if backend == "redis" {
		stand = newRespServer()
		defer stand.Close()
	}
	open()
	outs := []*Sx{}
	for _, o := range in.Field("ops") {
		var out *Sx
		func() {
			defer func() {
				if e := recover(); e != nil {
					out = L(A("panic"))
				}
			}()
			switch o.List[0].Atom {
			case "set":
				if err := store.Set(sessOfSx(o.List[1])); err != nil {
					out = L(A("err"), S(err.Error()))
				} else {
					out = L(A("unit"))
				}
			case "get":
				s, err := store.Get(o.List[1].Str())
				if err != nil {
					out = L(A("err"), S(err.Error()))
				} else {
					out = L(A("get"), sxSess(s))
				}
			case "remove":
				if err := store.Remove(o.List[1].Str()); err != nil {
					out = L(A("err"), S(err.Error()))
				} else {
					out = L(A("unit"))
				}
			case "setexp":
				if err := store.SetSessionExpiry(o.List[1].Str(), uint32(o.List[2].Uint())); err != nil {
					out = L(A("err"), S(err.Error()))
				} else {
					out = L(A("unit"))
				}
			case "iterate":
				var l []*gmqtt.Session
				err := store.Iterate(func(s *gmqtt.Session) bool { l = append(l, s); return true })
				if err != nil {
					out = L(A("err"), S(err.Error()))
					return
				}
				sort.SliceStable(l, func(i, j int) bool {
					if l[i] == nil || l[j] == nil {
						return l[i] == nil && l[j] != nil
					}
					return l[i].ClientID < l[j].ClientID
				})
				xs := []*Sx{A("iter")}
				for _, s := range l {
					xs = append(xs, sxSess(s))
				}
				out = L(xs...)
			case "restart":
				open()
				out = L(A("unit"))
			default:
				panic("rsess op " + o.List[0].Atom)
			}
		}()
		outs = append(outs, out)
	}
	return L(K("outs", outs...))
}

func rsessGen(r *Rng, i int) *Sx {
	backend := Pick(r, []string{"mem", "redis", "redis"})
	cids := []string{"c1", "c2", "sub:1", "", "session:x", string(r.Bytes(3))}
	pick := func() string { return Pick(r, cids) }
	ops := []*Sx{}
	for k := r.Range(3, 25); k > 0; k-- {
		switch x := r.Intn(20); {
		case x < 7:
			s := &gmqtt.Session{ClientID: pick(), WillDelayInterval: uint32(Pick(r, []int{0, 0, 1, 30, 4294967295})),
				ConnectedAt:    time.Unix(int64(Pick(r, []int{0, 1, 1790000000, 1790000001, 4294967295})), 0),
				ExpiryInterval: uint32(Pick(r, []int{0, 1, 3600, 7200, 4294967295}))}
			if r.Chance(1, 2) {
				s.Will = pencMsg(r)
				if len(s.Will.Payload) > 65535 {
					s.Will.Payload = s.Will.Payload[:Pick(r, []int{0, 1, 65535})] // a will payload is at most 65535 bytes on the wire
				}
			}
			ops = append(ops, L(A("set"), sxSess(s)))
		case x < 12:
			ops = append(ops, L(A("get"), S(pick())))
		case x < 14:
			ops = append(ops, L(A("remove"), S(pick())))
		case x < 16:
			ops = append(ops, L(A("setexp"), S(pick()), U(uint64(Pick(r, []int{0, 5, 100, 4294967295})))))
		case x < 18:
			ops = append(ops, L(A("iterate")))
		default:
			if backend == "redis" {
				ops = append(ops, L(A("restart")))
			} else {
				ops = append(ops, L(A("get"), S(pick())))
			}
		}
	}
	ops = append(ops, L(A("iterate")))
	for _, c := range cids[:4] {
		ops = append(ops, L(A("get"), S(c)))
	}
	return L(K("backend", A(backend)), K("ops", ops...))
}

func init() { register(&Suite{Name: "rsess", Gen: rsessGen, Run: rsessRun}) }
